// Package instrument generates the build overlay (DESIGN.md 2.2): rewritten
// copies of files of /repo/slog with seams R1-R3 plus the added export file R5.
// /repo itself is never modified.
package instrument

import (
	"bytes"
	"encoding/json"
	"fmt"
	"go/ast"
	"go/build"
	"go/format"
	"go/parser"
	"go/token"
	"os"
	"path/filepath"
	"sort"
	"strconv"
	"strings"
)

type Options struct {
	RepoDir      string            // /repo (the tree whose sources are checked)
	BuildDir     string            // the directory the go.mod replace points to (default: RepoDir); differs when checking a snapshot of the repository
	VerifDir     string            // /verif
	OutDir       string            // scratch directory for rewritten files
	NoShim       bool              // skip R1 (used for the free-running -race pass)
	NoMapOrder   bool              // skip R2
	SkipMapOrder map[string]bool   // R2 is not applied to ranges over these identifiers (the tree under check stores them in something that is no map)
	NoNow        bool              // skip R3
	NoExport     bool              // skip R5
	Dense        bool              // R4: a scheduling point before every statement of the logging path
	ExtraFiles   map[string]string // additional overlay entries (virtual path -> real file)
	ExportFile   string            // the R5 export file to add (default: VerifDir/_overlay/zz_verif_export.go)
	DropGen      map[string]bool   // "<generated func>:<variable>" statements to leave out of the generated globals file
}

type Report struct {
	Overlay        string
	Rewritten      []string
	R1, R2, R3, R4 int
	Degraded       []string
	ExportFile     string   // the export file the overlay adds (after the NoShim rewrite, if any)
	GlobalsFile    string   // the generated snapshot/dump file for the package-level variables
	Globals        int      // number of package-level variables it covers
	DroppedGen     []string // statements of the generated file the compiler rejected
	Stubbed        []string // functions of the export file replaced by stubs (see StubExport)
}

var mapRangeIdents = map[string]bool{"knownPathMap": true, "codeHostingProvidersMap": true}

var denseFiles = map[string]bool{"entry.go": true, "attr.go": true, "pc.go": true, "entry_nolock.go": true, "stack.go": true, "writers.go": true}

// Generate writes the overlay and returns its path.
func Generate(o Options) (*Report, error) {
	rep := &Report{}
	slogDir := filepath.Join(o.RepoDir, "slog")
	// the iteration-order seam is applied to ranges over the package-level string-to-string tables of the tree under check,
	// whatever they are called there (a renamed table must not escape the harness's control over its iteration order)
	mapRangeIdents = map[string]bool{"knownPathMap": true, "codeHostingProvidersMap": true}
	if vars, err := ScanGlobals(slogDir); err == nil {
		for _, g := range vars {
			if strings.ReplaceAll(g.Type, " ", "") == "map[string]string" {
				mapRangeIdents[g.Name] = true
			}
		}
	}
	ents, err := os.ReadDir(slogDir)
	if err != nil {
		return nil, err
	}
	replace := map[string]string{}
	build := o.BuildDir
	if build == "" {
		build = o.RepoDir
	}
	if build != o.RepoDir {
		// checking a snapshot: every source file of the module is taken from the snapshot
		seen := map[string]bool{}
		filepath.Walk(o.RepoDir, func(p string, info os.FileInfo, err error) error {
			if err != nil {
				return nil
			}
			if info.IsDir() {
				n := info.Name()
				if n == ".git" || n == "examples" || n == "tests" || n == "bench" {
					return filepath.SkipDir
				}
				return nil
			}
			if strings.HasSuffix(p, ".go") || strings.HasSuffix(p, "go.mod") || strings.HasSuffix(p, "go.sum") {
				rel, _ := filepath.Rel(o.RepoDir, p)
				replace[filepath.Join(build, rel)] = p
				seen[rel] = true
			}
			return nil
		})
		filepath.Walk(build, func(p string, info os.FileInfo, err error) error {
			if err != nil {
				return nil
			}
			if info.IsDir() {
				n := info.Name()
				if n == ".git" || n == "examples" || n == "tests" || n == "bench" {
					return filepath.SkipDir
				}
				return nil
			}
			if strings.HasSuffix(p, ".go") {
				rel, _ := filepath.Rel(build, p)
				if !seen[rel] {
					replace[p] = "" // file does not exist in the snapshot
				}
			}
			return nil
		})
	}
	for _, e := range ents {
		name := e.Name()
		if e.IsDir() || !strings.HasSuffix(name, ".go") || strings.HasSuffix(name, "_test.go") {
			continue
		}
		src := filepath.Join(slogDir, name)
		out, changed, err := rewriteFile(src, name, o, rep)
		if err != nil {
			rep.Degraded = append(rep.Degraded, fmt.Sprintf("%s: %v", name, err))
			continue
		}
		if !changed {
			continue
		}
		dst := filepath.Join(o.OutDir, "slog_"+name)
		if err := os.WriteFile(dst, out, 0o644); err != nil {
			return nil, err
		}
		replace[filepath.Join(build, "slog", name)] = dst
		rep.Rewritten = append(rep.Rewritten, name)
	}
	if !o.NoExport {
		exp := filepath.Join(o.VerifDir, "_overlay", "zz_verif_export.go")
		if o.ExportFile != "" {
			exp = o.ExportFile
		}
		rep.ExportFile = exp
		if o.NoShim {
			// the export file refers to the shim pool type; give it the real one
			b, err := os.ReadFile(exp)
			if err != nil {
				return nil, err
			}
			b = bytes.Replace(b, []byte(`sync "verif/shim/vsync"`), []byte(`"sync"`), 1)
			exp = filepath.Join(o.OutDir, "zz_verif_export_noshim.go")
			if err := os.WriteFile(exp, b, 0o644); err != nil {
				return nil, err
			}
			rep.ExportFile = exp
		}
		replace[filepath.Join(build, "slog", "zz_verif_export.go")] = exp
		gen := filepath.Join(o.OutDir, "zz_verif_globals.go")
		vars, err := GenGlobals(slogDir, gen, o.DropGen)
		if err != nil {
			return nil, err
		}
		rep.GlobalsFile = gen
		rep.Globals = len(vars)
		replace[filepath.Join(build, "slog", "zz_verif_globals.go")] = gen
	}
	for k, v := range o.ExtraFiles {
		replace[k] = v
	}
	ov := struct {
		Replace map[string]string `json:"Replace"`
	}{replace}
	b, _ := json.MarshalIndent(ov, "", " ")
	rep.Overlay = filepath.Join(o.OutDir, "overlay.json")
	if err := os.WriteFile(rep.Overlay, b, 0o644); err != nil {
		return nil, err
	}
	return rep, nil
}

func rewriteFile(path, base string, o Options, rep *Report) ([]byte, bool, error) {
	fset := token.NewFileSet()
	f, err := parser.ParseFile(fset, path, nil, parser.ParseComments)
	if err != nil {
		return nil, false, err
	}
	changed := false
	timeName := ""
	for _, imp := range f.Imports {
		p, _ := strconv.Unquote(imp.Path.Value)
		switch p {
		case "sync":
			if !o.NoShim {
				if imp.Name == nil {
					imp.Name = ast.NewIdent("sync")
				}
				imp.Path.Value = strconv.Quote("verif/shim/vsync")
				changed = true
				rep.R1++
			}
		case "sync/atomic":
			if !o.NoShim {
				if imp.Name == nil {
					imp.Name = ast.NewIdent("atomic")
				}
				imp.Path.Value = strconv.Quote("verif/shim/vatomic")
				changed = true
				rep.R1++
			}
		case "time":
			timeName = "time"
			if imp.Name != nil {
				timeName = imp.Name.Name
			}
		}
	}
	nowRewritten := false
	ast.Inspect(f, func(n ast.Node) bool {
		switch z := n.(type) {
		case *ast.RangeStmt:
			if o.NoMapOrder || o.NoExport {
				return true
			}
			wrap := false
			switch x := z.X.(type) {
			case *ast.Ident:
				wrap = mapRangeIdents[x.Name] && !o.SkipMapOrder[x.Name]
			case *ast.SelectorExpr:
				wrap = x.Sel.Name == "items" && base == "entry.go" && !o.SkipMapOrder[x.Sel.Name]
			}
			if wrap {
				z.X = &ast.CallExpr{Fun: ast.NewIdent("verifMapOrder"), Args: []ast.Expr{z.X}}
				changed = true
				rep.R2++
			}
		case *ast.CallExpr:
			if o.NoNow || o.NoExport || timeName == "" {
				return true
			}
			if sel, ok := z.Fun.(*ast.SelectorExpr); ok && sel.Sel.Name == "Now" && len(z.Args) == 0 {
				if id, ok := sel.X.(*ast.Ident); ok && id.Name == timeName && id.Obj == nil {
					z.Fun = ast.NewIdent("verifNow")
					changed = true
					nowRewritten = true
					rep.R3++
				}
			}
		}
		return true
	})
	if o.Dense && !o.NoShim && denseFiles[base] {
		n := densify(f, base)
		if n > 0 {
			rep.R4 += n
			changed = true
			addImport(f, "verifsched", "verif/engine/sched")
		}
	}
	if !changed {
		return nil, false, nil
	}
	var buf bytes.Buffer
	if err := format.Node(&buf, fset, f); err != nil {
		return nil, false, err
	}
	if nowRewritten {
		fmt.Fprintf(&buf, "\nvar _ %s.Time // keep the import used after R3\n", timeName)
	}
	return buf.Bytes(), true, nil
}

func addImport(f *ast.File, name, path string) {
	spec := &ast.ImportSpec{Name: ast.NewIdent(name), Path: &ast.BasicLit{Kind: token.STRING, Value: strconv.Quote(path)}}
	decl := &ast.GenDecl{Tok: token.IMPORT, Specs: []ast.Spec{spec}}
	f.Decls = append([]ast.Decl{decl}, f.Decls...)
	f.Imports = append(f.Imports, spec)
}

// densify inserts verifsched.Point("<file>:<n>") before every statement of
// every function body (R4). Returns the number of points inserted.
func densify(f *ast.File, base string) int {
	n := 0
	var doBlock func(b *ast.BlockStmt)
	point := func() ast.Stmt {
		n++
		return &ast.ExprStmt{X: &ast.CallExpr{
			Fun:  &ast.SelectorExpr{X: ast.NewIdent("verifsched"), Sel: ast.NewIdent("Point")},
			Args: []ast.Expr{&ast.BasicLit{Kind: token.STRING, Value: strconv.Quote(fmt.Sprintf("%s#%d", base, n))}},
		}}
	}
	var doStmt func(s ast.Stmt)
	doStmt = func(s ast.Stmt) {
		switch z := s.(type) {
		case *ast.BlockStmt:
			doBlock(z)
		case *ast.IfStmt:
			doBlock(z.Body)
			if z.Else != nil {
				doStmt(z.Else)
			}
		case *ast.ForStmt:
			doBlock(z.Body)
		case *ast.RangeStmt:
			doBlock(z.Body)
		case *ast.SwitchStmt:
			for _, c := range z.Body.List {
				cc := c.(*ast.CaseClause)
				cc.Body = instrList(cc.Body, point, doStmt)
			}
		case *ast.TypeSwitchStmt:
			for _, c := range z.Body.List {
				cc := c.(*ast.CaseClause)
				cc.Body = instrList(cc.Body, point, doStmt)
			}
		case *ast.LabeledStmt:
			doStmt(z.Stmt)
		}
	}
	doBlock = func(b *ast.BlockStmt) {
		if b == nil {
			return
		}
		b.List = instrList(b.List, point, doStmt)
	}
	for _, d := range f.Decls {
		if fd, ok := d.(*ast.FuncDecl); ok && fd.Body != nil {
			doBlock(fd.Body)
		}
	}
	return n
}

func instrList(list []ast.Stmt, point func() ast.Stmt, doStmt func(ast.Stmt)) []ast.Stmt {
	out := make([]ast.Stmt, 0, 2*len(list))
	for _, s := range list {
		doStmt(s)
		out = append(out, point(), s)
	}
	return out
}

// StubExport writes a copy of the export file src to dst in which every
// function whose source range contains one of the given lines has its body
// replaced by a stub: mark the function as degraded, return zero values.
// It returns the names of the functions stubbed by this call (empty: no
// line fell inside a function body that can be stubbed).
func StubExport(src, dst string, lines []int) ([]string, error) {
	fset := token.NewFileSet()
	f, err := parser.ParseFile(fset, src, nil, parser.ParseComments)
	if err != nil {
		return nil, err
	}
	b, err := os.ReadFile(src)
	if err != nil {
		return nil, err
	}
	type repl struct {
		from, to int
		text     string
	}
	var repls []repl
	var names []string
	for _, d := range f.Decls {
		fd, ok := d.(*ast.FuncDecl)
		if !ok || fd.Body == nil || fd.Name.Name == "verifMark" || fd.Name.Name == "VerifDegradedUsed" {
			continue
		}
		l0, l1 := fset.Position(fd.Pos()).Line, fset.Position(fd.End()).Line
		hit := false
		for _, ln := range lines {
			if ln >= l0 && ln <= l1 {
				hit = true
			}
		}
		if !hit {
			continue
		}
		body := string(b[fset.Position(fd.Body.Pos()).Offset:fset.Position(fd.Body.End()).Offset])
		if strings.Contains(body, "verifMark(\""+fd.Name.Name+"\")") {
			continue // already a stub: the error is in its signature, nothing more can be done here
		}
		var sb strings.Builder
		fmt.Fprintf(&sb, "{\n\tverifMark(%q)\n", fd.Name.Name)
		if fd.Type.Results != nil && len(fd.Type.Results.List) > 0 {
			var rets []string
			n := 0
			for _, fld := range fd.Type.Results.List {
				var tb bytes.Buffer
				if err := format.Node(&tb, fset, fld.Type); err != nil {
					return nil, err
				}
				cnt := len(fld.Names)
				if cnt == 0 {
					cnt = 1
				}
				for k := 0; k < cnt; k++ {
					v := fmt.Sprintf("verifZero%d", n)
					n++
					fmt.Fprintf(&sb, "\tvar %s %s\n", v, tb.String())
					rets = append(rets, v)
				}
			}
			fmt.Fprintf(&sb, "\treturn %s\n", strings.Join(rets, ", "))
		}
		sb.WriteString("}")
		repls = append(repls, repl{fset.Position(fd.Body.Pos()).Offset, fset.Position(fd.Body.End()).Offset, sb.String()})
		names = append(names, fd.Name.Name)
	}
	if len(repls) == 0 {
		return nil, nil
	}
	out := make([]byte, 0, len(b))
	pos := 0
	for _, r := range repls {
		out = append(out, b[pos:r.from]...)
		out = append(out, r.text...)
		pos = r.to
	}
	out = append(out, b[pos:]...)
	// unused imports after stubbing would break the build: keep every import referenced
	var keep strings.Builder
	keep.WriteString("\n// keep the imports used after stubbing\nvar (\n")
	for _, imp := range f.Imports {
		pth, _ := strconv.Unquote(imp.Path.Value)
		name := filepath.Base(pth)
		if imp.Name != nil {
			name = imp.Name.Name
		}
		if sym, ok := importAnchor[pth]; ok {
			fmt.Fprintf(&keep, "\t_ = %s.%s\n", name, sym)
		}
	}
	keep.WriteString(")\n")
	out = append(out, keep.String()...)
	return names, os.WriteFile(dst, out, 0o644)
}

// one exported symbol per package the export file imports (to keep imports used in a stubbed copy)
var importAnchor = map[string]string{
	"cmp": "Compare[int]", "fmt": "Sprint", "io": "EOF", "iter": "Pull[int]", "os": "Getpid", "regexp": "MustCompile", "sort": "Strings",
	"strings": "TrimSpace", "time": "Now", "sync": "NewCond", "verif/shim/vsync": "NoPoolChoice",
	"github.com/hedzr/is": "DebugMode", "github.com/hedzr/is/term/color": "NoColor",
	"github.com/hedzr/logg/slog/internal/strings": "DotPrefix", "github.com/hedzr/logg/slog/internal/times": "ParseDuration",
}

// GlobalVar is one package-level variable of package slog found in the sources.
type GlobalVar struct {
	Name, Type, Value string
	Pool, Levels      bool
}

// ScanGlobals lists the package-level variables of the (default-build) sources of package slog.
// Variables of sync / atomic types other than sync.Pool are left out.
func ScanGlobals(slogDir string) ([]GlobalVar, error) {
	ents, err := os.ReadDir(slogDir)
	if err != nil {
		return nil, err
	}
	ctx := build.Default
	ctx.BuildTags = []string{"verif"}
	var out []GlobalVar
	fset := token.NewFileSet()
	text := func(n ast.Node) string {
		if n == nil {
			return ""
		}
		var b bytes.Buffer
		_ = format.Node(&b, fset, n)
		return b.String()
	}
	for _, e := range ents {
		name := e.Name()
		if e.IsDir() || !strings.HasSuffix(name, ".go") || strings.HasSuffix(name, "_test.go") {
			continue
		}
		if ok, err := ctx.MatchFile(slogDir, name); err != nil || !ok {
			continue
		}
		f, err := parser.ParseFile(fset, filepath.Join(slogDir, name), nil, 0)
		if err != nil {
			return nil, err
		}
		for _, d := range f.Decls {
			gd, ok := d.(*ast.GenDecl)
			if !ok || gd.Tok != token.VAR {
				continue
			}
			for _, sp := range gd.Specs {
				vs := sp.(*ast.ValueSpec)
				for i, id := range vs.Names {
					if id.Name == "_" || strings.HasPrefix(strings.ToLower(id.Name), "verif") {
						continue
					}
					g := GlobalVar{Name: id.Name, Type: text(vs.Type)}
					if len(vs.Values) == len(vs.Names) {
						g.Value = text(vs.Values[i])
					}
					tv := g.Type + " " + g.Value
					g.Pool = g.Type == "sync.Pool" || strings.HasPrefix(g.Value, "sync.Pool{")
					if !g.Pool && (strings.Contains(tv, "sync.") || strings.Contains(tv, "atomic.")) {
						continue
					}
					g.Levels = strings.Contains(g.Type, "Level") || strings.Contains(firstLineOf(g.Value), "Level")
					out = append(out, g)
				}
			}
		}
	}
	sort.Slice(out, func(i, j int) bool { return out[i].Name < out[j].Name })
	return out, nil
}

func firstLineOf(s string) string {
	if i := strings.IndexByte(s, '\n'); i >= 0 {
		return s[:i]
	}
	return s
}

// GenGlobals writes the generated file that snapshots / dumps every package-level variable by name
// (one statement per line, so that a line the compiler rejects can be dropped: see DropLines).
func GenGlobals(slogDir, dst string, drop map[string]bool) ([]GlobalVar, error) {
	vars, err := ScanGlobals(slogDir)
	if err != nil {
		return nil, err
	}
	var sb strings.Builder
	sb.WriteString("//go:build verif\n\n// Code generated by /verif/instrument from the package-level variables of this tree. DO NOT EDIT.\n\npackage slog\n\nimport \"strings\"\n\n")
	emit := func(fn, sig string, line func(g GlobalVar) string) {
		fmt.Fprintf(&sb, "func %s%s {\n", fn, sig)
		for _, g := range vars {
			if drop[fn+":"+g.Name] {
				fmt.Fprintf(&sb, "\tverifMark(%q)\n", "generated:"+fn+":"+g.Name)
				continue
			}
			if l := line(g); l != "" {
				sb.WriteString("\t" + l + " // " + fn + ":" + g.Name + "\n")
			}
		}
		sb.WriteString("}\n\n")
	}
	emit("verifGenSnapshot", "(s *VerifSnap)", func(g GlobalVar) string {
		if g.Pool {
			return ""
		}
		return fmt.Sprintf("verifSnapVar(s, &%s)", g.Name)
	})
	emit("verifGenSnapshotPools", "(s *VerifSnap)", func(g GlobalVar) string {
		if !g.Pool {
			return ""
		}
		return fmt.Sprintf("verifSnapPoolVar(s, &%s)", g.Name)
	})
	emit("verifGenDump", "(sb *strings.Builder)", func(g GlobalVar) string {
		if g.Pool {
			return ""
		}
		return fmt.Sprintf("verifDumpVar(sb, %q, &%s)", g.Name, g.Name)
	})
	emit("verifGenDumpLevels", "(sb *strings.Builder)", func(g GlobalVar) string {
		if g.Pool || !g.Levels {
			return ""
		}
		return fmt.Sprintf("verifDumpVar(sb, %q, &%s)", g.Name, g.Name)
	})
	return vars, os.WriteFile(dst, []byte(sb.String()), 0o644)
}

// GenLineTags returns, for the given line numbers of a generated file, the "<func>:<var>" tags at their ends.
func GenLineTags(file string, lines []int) []string {
	b, err := os.ReadFile(file)
	if err != nil {
		return nil
	}
	ls := strings.Split(string(b), "\n")
	var tags []string
	for _, n := range lines {
		if n >= 1 && n <= len(ls) {
			if i := strings.LastIndex(ls[n-1], " // "); i >= 0 {
				tags = append(tags, strings.TrimSpace(ls[n-1][i+4:]))
			}
		}
	}
	return tags
}
