#!/bin/bash
# usage: mutw.sh <patch> <check-id>...  : like mut.sh but in a scratch worktree (leaves /repo and /verif/evidence untouched; parallel-safe)
P=$(readlink -f "$1"); shift
W=$(mktemp -d /var/tmp/mw-XXXXXX); rmdir $W
git -C /repo worktree add -q --detach $W HEAD || exit 2
trap 'git -C /repo worktree remove --force '$W' 2>/dev/null; rm -rf '$W' '$W'.out' EXIT
(cd $W && git apply "$P") || { echo "PATCH DOES NOT APPLY: $P"; exit 2; }
if [ -z "$SKIP_SUITE" ]; then /verif/run_baseline.sh $W | head -3; fi
cd /verif
T=${TIER:-quick}
for c in "$@"; do
  out=$(VERIF_REPO=$W VERIF_OUT=$W.out ./bin/verif check $c --tier $T 2>&1); rc=$?
  echo "$out" | grep -m2 "VIOLATION\|INFRA" | cut -c1-250
  echo "$out" | tail -1 | cut -c1-200
  echo "  => $c exit=$rc"
done
