#!/bin/bash
# usage: mut.sh <patch> <check-id>...   : applies the patch to /repo, runs the repo's own suite and the quick checks, reverts.
P=$(readlink -f "$1"); shift
cd /repo && git apply "$P" || { echo "PATCH DOES NOT APPLY: $P"; exit 2; }
trap 'git -C /repo checkout -- . ' EXIT
if [ -z "$SKIP_SUITE" ]; then /verif/run_baseline.sh | head -3; fi
cd /verif
for c in "$@"; do
  out=$(./bin/verif check $c 2>&1); rc=$?
  echo "$out" | grep -m2 "VIOLATION\|INFRA" | cut -c1-250
  echo "$out" | tail -1 | cut -c1-200
  echo "  => $c exit=$rc"
done
