#!/usr/bin/env python3
# Generates MANIFEST.json from the table below (kept next to the driver's specs).
import json, sys
checks = json.load(open('/verif/manifest_checks.json'))
props = [json.loads(l) for l in open('/verif/properties.jsonl')]
claimed = {c['property_id'] for c in checks['checks']}
na = [x for x in checks.get('not_applicable', []) if x['property_id'] not in claimed]
listed = claimed | {x['property_id'] for x in na}
for p in props:
    if p['id'] not in listed:
        na.append({'property_id': p['id'], 'reason': 'check not built yet in this session (work in progress; see DESIGN.md section 4 for the planned check)'})
BUILD = 'GOFLAGS=-mod=mod GOPROXY=off GOSUMDB=off GOTOOLCHAIN=local GOWORK=off go build -o bin/verif ./cmd/verif'  # the driver itself (setup_cmd builds it too)
out = {
 'version': 1,
 'setup_cmd': 'cd /verif && GOFLAGS=-mod=mod GOPROXY=off GOSUMDB=off GOTOOLCHAIN=local GOWORK=off go run ./cmd/verif setup',
 'hooks': {
   'guard': 'verif',
   'enable': 'no source change in /repo: `go build -tags verif -overlay <generated>` substitutes instrumented copies of slog/*.go (sync->shim, map-range order seam, time.Now seam) and adds two files to package slog (//go:build verif): _overlay/zz_verif_export.go (accessors) and a generated zz_verif_globals.go (snapshot/restore/dump of every package-level variable found in the tree); regenerated from the working tree on every check run; functions of the added files that do not compile against the tree are stubbed and the checks that use a stub print INFRA ... DEGRADED (no verdict)',
   'baseline_off_cmd': 'cd /repo && for m in . tests; do (cd $m && GOPROXY=off GOSUMDB=off GOTOOLCHAIN=local go test -vet=off -count=1 ./...); done',
   'source_commits': [],
   'add_only': True,
 },
 'engines': checks['engines'],
 'checks': [],
 'notes': checks.get('notes', ''),
 'not_applicable': na,
}
for c in checks['checks']:
    pid = c['property_id']
    out['checks'].append({
      'property_id': pid,
      'quick_cmd': f'cd /verif && {{ [ -x bin/verif ] || {BUILD}; }} && ./bin/verif check {pid} --tier quick',
      'thorough_cmd': f'cd /verif && {{ [ -x bin/verif ] || {BUILD}; }} && ./bin/verif check {pid} --tier thorough',
      'evidence_file': f'/verif/evidence/{pid}.json',
      'replay_cmd_template': 'cd /verif && ./bin/verif replay {path}',
      'engine': c['engine'],
      'level_claimed': {'category': c['category'], 'text': c['text'], 'design_ref': c['design_ref']},
      'level_note': c['level_note'],
      'technique': c['technique'],
    })
json.dump(out, open('/verif/MANIFEST.json', 'w'), indent=1)
print('checks:', len(out['checks']), 'not_applicable:', len(na))
