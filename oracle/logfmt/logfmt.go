// Package logfmt is an independent tokenizer for the `key=value key=value`
// line format. It reports malformed input instead of guessing.
package logfmt

import (
	"fmt"
	"strconv"
	"strings"
)

type Pair struct {
	Key    string
	Raw    string // value text as it appears
	Val    string // decoded value (unquoted when Quoted)
	Quoted bool
}

// ParseLine tokenizes one record (payload must end in exactly one '\n').
func ParseLine(payload []byte) ([]Pair, error) {
	if len(payload) == 0 || payload[len(payload)-1] != '\n' {
		return nil, fmt.Errorf("framing: payload does not end with a newline")
	}
	s := string(payload[:len(payload)-1])
	if i := strings.IndexAny(s, "\n\r"); i >= 0 {
		return nil, fmt.Errorf("framing: raw line break inside the record at byte %d", i)
	}
	var pairs []Pair
	i := 0
	for i < len(s) {
		// key
		j := i
		for j < len(s) && s[j] != '=' && s[j] != ' ' && s[j] != '"' {
			j++
		}
		if j == i {
			if s[j] == ' ' {
				return pairs, fmt.Errorf("empty token at byte %d (after %d pairs)", i, len(pairs))
			}
			return pairs, fmt.Errorf("key-less token at byte %d: %.40q", i, s[i:])
		}
		if j >= len(s) || s[j] != '=' {
			return pairs, fmt.Errorf("key-less token at byte %d: %.40q", i, s[i:])
		}
		key := s[i:j]
		j++ // skip '='
		// value
		p := Pair{Key: key}
		if j < len(s) && s[j] == '"' {
			k := j + 1
			for k < len(s) {
				if s[k] == '\\' {
					k += 2
					continue
				}
				if s[k] == '"' {
					break
				}
				k++
			}
			if k >= len(s) {
				return pairs, fmt.Errorf("unterminated quoted value for key %q", key)
			}
			p.Raw = s[j : k+1]
			v, err := strconv.Unquote(p.Raw)
			if err != nil {
				return pairs, fmt.Errorf("value of %q does not unquote: %v", key, err)
			}
			p.Val, p.Quoted = v, true
			j = k + 1
		} else {
			k := j
			depth := 0
			for k < len(s) {
				c := s[k]
				if c == '"' {
					// quoted string inside a bracketed list
					k++
					for k < len(s) && s[k] != '"' {
						if s[k] == '\\' {
							k++
						}
						k++
					}
					if k >= len(s) {
						return pairs, fmt.Errorf("unterminated string inside the value of %q", key)
					}
					k++
					continue
				}
				if c == '[' {
					depth++
				} else if c == ']' && depth > 0 {
					depth--
				} else if c == ' ' && depth == 0 {
					break
				}
				k++
			}
			p.Raw = s[j:k]
			p.Val = p.Raw
			j = k
		}
		pairs = append(pairs, p)
		if j < len(s) {
			if s[j] != ' ' {
				return pairs, fmt.Errorf("garbage after the value of %q: %.40q", key, s[j:])
			}
			j++
			if j >= len(s) {
				return pairs, fmt.Errorf("trailing separator")
			}
		}
		i = j
	}
	return pairs, nil
}
