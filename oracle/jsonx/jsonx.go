// Package jsonx is the independent JSON oracle: framing check plus an
// order-preserving, duplicate-detecting decode built on encoding/json's
// tokenizer (UseNumber).
package jsonx

import (
	"bytes"
	"encoding/json"
	"fmt"
	"io"
)

// Obj is a JSON object with member order preserved.
type Obj struct {
	Keys []string
	Vals []any // string | json.Number | bool | nil | *Obj | []any
}

func (o *Obj) Get(k string) (any, bool) {
	for i, kk := range o.Keys {
		if kk == k {
			return o.Vals[i], true
		}
	}
	return nil, false
}

// DecodeLine checks that payload is exactly one line holding exactly one JSON
// object and returns it.
func DecodeLine(payload []byte) (*Obj, error) { return decodeLine(payload, false) }

// DecodeLineKeepDuplicates is DecodeLine for callers whose property does not speak about member names: a member
// name that occurs twice is kept twice (syntactically valid JSON), GetLast returns the later one.
func DecodeLineKeepDuplicates(payload []byte) (*Obj, error) { return decodeLine(payload, true) }

// GetLast returns the last member of that name.
func (o *Obj) GetLast(k string) (any, bool) {
	for i := len(o.Keys) - 1; i >= 0; i-- {
		if o.Keys[i] == k {
			return o.Vals[i], true
		}
	}
	return nil, false
}

func decodeLine(payload []byte, dups bool) (*Obj, error) {
	if len(payload) == 0 || payload[len(payload)-1] != '\n' {
		return nil, fmt.Errorf("framing: payload does not end with a newline")
	}
	body := payload[:len(payload)-1]
	if i := bytes.IndexByte(body, '\n'); i >= 0 {
		return nil, fmt.Errorf("framing: raw line break inside the record at byte %d", i)
	}
	if i := bytes.IndexByte(body, '\r'); i >= 0 {
		return nil, fmt.Errorf("framing: raw carriage return inside the record at byte %d", i)
	}
	if !json.Valid(body) {
		// find a useful message
		var x any
		err := json.Unmarshal(body, &x)
		return nil, fmt.Errorf("invalid JSON: %v", err)
	}
	dec := json.NewDecoder(bytes.NewReader(body))
	dec.UseNumber()
	v, err := decodeValue(dec, dups)
	if err != nil {
		return nil, err
	}
	if _, err := dec.Token(); err != io.EOF {
		return nil, fmt.Errorf("framing: more than one JSON value on the line")
	}
	o, ok := v.(*Obj)
	if !ok {
		return nil, fmt.Errorf("framing: top-level value is not an object")
	}
	return o, nil
}

func decodeValue(dec *json.Decoder, dups bool) (any, error) {
	t, err := dec.Token()
	if err != nil {
		return nil, err
	}
	switch z := t.(type) {
	case json.Delim:
		switch z {
		case '{':
			o := &Obj{}
			for dec.More() {
				kt, err := dec.Token()
				if err != nil {
					return nil, err
				}
				k, ok := kt.(string)
				if !ok {
					return nil, fmt.Errorf("non-string key")
				}
				for _, kk := range o.Keys {
					if kk == k && !dups {
						return nil, fmt.Errorf("duplicate member %q", k)
					}
				}
				v, err := decodeValue(dec, dups)
				if err != nil {
					return nil, err
				}
				o.Keys = append(o.Keys, k)
				o.Vals = append(o.Vals, v)
			}
			if _, err := dec.Token(); err != nil {
				return nil, err
			}
			return o, nil
		case '[':
			arr := []any{}
			for dec.More() {
				v, err := decodeValue(dec, dups)
				if err != nil {
					return nil, err
				}
				arr = append(arr, v)
			}
			if _, err := dec.Token(); err != nil {
				return nil, err
			}
			return arr, nil
		}
		return nil, fmt.Errorf("unexpected delimiter %v", z)
	default:
		return t, nil
	}
}
