// Package sgr is a small terminal-state simulator for SGR (colour) sequences.
package sgr

import (
	"fmt"
	"strconv"
	"strings"
)

// State is the set of active attributes.
type State struct {
	Fg, Bg                              int // 0 = default
	Bold, Dim, Italic, Underline, Blink bool
	Reverse, Hidden, Strike             bool
}

func (s State) Clean() bool { return s == State{} }

func (s State) String() string {
	if s.Clean() {
		return "clean"
	}
	type raw State
	return fmt.Sprintf("%+v", raw(s))
}

func (s *State) apply(code int) {
	switch {
	case code == 0:
		*s = State{}
	case code == 1:
		s.Bold = true
	case code == 2:
		s.Dim = true
	case code == 3:
		s.Italic = true
	case code == 4:
		s.Underline = true
	case code == 5 || code == 6:
		s.Blink = true
	case code == 7:
		s.Reverse = true
	case code == 8:
		s.Hidden = true
	case code == 9:
		s.Strike = true
	case code == 22:
		s.Bold, s.Dim = false, false
	case code == 23:
		s.Italic = false
	case code == 24:
		s.Underline = false
	case code == 25:
		s.Blink = false
	case code == 27:
		s.Reverse = false
	case code == 28:
		s.Hidden = false
	case code == 29:
		s.Strike = false
	case code >= 30 && code <= 37, code >= 90 && code <= 97:
		s.Fg = code
	case code == 39:
		s.Fg = 0
	case code >= 40 && code <= 47, code >= 100 && code <= 107:
		s.Bg = code
	case code == 49:
		s.Bg = 0
	}
}

// Report of a scan.
type Report struct {
	Text       string  // payload with SGR sequences removed
	AtNewline  []State // state immediately before each '\n'
	AtEnd      State
	BadEscapes []string // ESC bytes that are not part of a well-formed SGR sequence
	Controls   []int    // offsets (in Text) of C0 bytes other than '\n' and of DEL
}

func Scan(p []byte) Report {
	var r Report
	var st State
	var sb strings.Builder
	i := 0
	for i < len(p) {
		c := p[i]
		if c == 0x1b {
			// ESC [ params m
			j := i + 1
			if j < len(p) && p[j] == '[' {
				k := j + 1
				for k < len(p) && (p[k] >= '0' && p[k] <= '9' || p[k] == ';') {
					k++
				}
				if k < len(p) && p[k] == 'm' {
					params := string(p[j+1 : k])
					if params == "" {
						st.apply(0)
					} else {
						parts := strings.Split(params, ";")
						for x := 0; x < len(parts); x++ {
							n, _ := strconv.Atoi(parts[x])
							if (n == 38 || n == 48) && x+1 < len(parts) {
								// extended colour: 38;5;n or 38;2;r;g;b
								if parts[x+1] == "5" {
									x += 2
								} else if parts[x+1] == "2" {
									x += 4
								}
								if n == 38 {
									st.Fg = 38
								} else {
									st.Bg = 48
								}
								continue
							}
							st.apply(n)
						}
					}
					i = k + 1
					continue
				}
			}
			r.BadEscapes = append(r.BadEscapes, fmt.Sprintf("offset %d: %q", i, string(p[i:min(len(p), i+8)])))
			sb.WriteByte(c)
			i++
			continue
		}
		if c == '\n' {
			r.AtNewline = append(r.AtNewline, st)
		} else if c < 0x20 || c == 0x7f {
			r.Controls = append(r.Controls, sb.Len())
		}
		sb.WriteByte(c)
		i++
	}
	r.AtEnd = st
	r.Text = sb.String()
	return r
}
