#!/usr/bin/env python3
"""Evaluate one seeded change produced by a sub-agent.
usage: seed_eval.py <Cxx> <i> [extra-check-ids...]
Confirms (in a scratch worktree): patch applies, the repository's suite passes with it, the demo test fails with it
and passes without it; then runs the property's quick check (and any extra checks) against the patched snapshot.
Stores the seed under /verif/seeded/<Cxx>-<i>/ when confirmed."""
import json, os, shutil, subprocess, sys, tempfile
cid, i = sys.argv[1], sys.argv[2]
extra = sys.argv[3:]
rnd = os.environ.get("ROUND", "1")
out = f"/tmp/seeds/{cid}-out" + ("" if rnd == "1" else rnd)
patch = f"{out}/patch{i}.diff"; demo = f"{out}/demo{i}_test.go"; metaf = f"{out}/meta{i}.json"
for f in (patch, demo, metaf):
    if not os.path.exists(f):
        print("MISSING", f); sys.exit(2)
meta = json.load(open(metaf))
demo_dir = meta.get("demo_dir", "slog")
env = dict(os.environ, GOPROXY="off", GOSUMDB="off", GOTOOLCHAIN="local"); env.pop("GOFLAGS", None)
W = tempfile.mkdtemp(prefix="se-", dir="/var/tmp"); os.rmdir(W)
subprocess.check_call(["git", "-C", "/repo", "worktree", "add", "-q", "--detach", W, "HEAD"])
res = {"property": cid, "index": i, "title": meta.get("title"), "needs": meta.get("needs")}
def run(cmd, cwd, timeout=1500):
    p = subprocess.run(cmd, cwd=cwd, env=env, shell=True, capture_output=True, text=True, timeout=timeout)
    return p.returncode, (p.stdout + p.stderr)[-3000:]
try:
    rc, o = run(f"git apply {patch}", W)
    res["applies"] = rc == 0
    if rc != 0:
        print(json.dumps(res)); print(o); sys.exit(1)
    rc, o = run("/verif/run_baseline.sh " + W, "/verif")
    res["suite_passes_with_patch"] = (rc == 0 and "passed=155" in o)
    res["suite_output"] = o.strip()[:200]
    dst = os.path.join(W, demo_dir, f"demo{i}_test.go")  # the name the sub-agent used (some demos compare file names)
    shutil.copy(demo, dst)
    pkg = "./" + demo_dir + "/"
    rc1, o1 = run(f"go test -vet=off -count=1 -run . {pkg} 2>&1 | tail -30", W)
    # run only the demo's tests: find Test names
    import re
    names = re.findall(r"^func (Test\w+)\(", open(demo).read(), re.M)
    pat = "^(" + "|".join(names) + ")$"
    rc_with, o_with = run(f"go test -vet=off -count=1 -run '{pat}' {pkg}", W)
    res["demo_fails_with_patch"] = rc_with != 0
    run(f"git apply -R {patch}", W)
    rc_wo, o_wo = run(f"go test -vet=off -count=1 -run '{pat}' {pkg}", W)
    res["demo_passes_without_patch"] = rc_wo == 0
    os.remove(dst)
    run(f"git apply {patch}", W)
    confirmed = res["suite_passes_with_patch"] and res["demo_fails_with_patch"] and res["demo_passes_without_patch"]
    res["confirmed"] = confirmed
    checks = [cid] + [c for c in extra if c != cid]
    caught = {}
    venv = dict(os.environ, VERIF_REPO=W, VERIF_OUT=W + ".out")
    for c in checks:
        p = subprocess.run(["/verif/bin/verif", "check", c, "--tier", os.environ.get("TIER", "quick")], cwd="/verif", env=venv, capture_output=True, text=True, timeout=3000)
        first = [l for l in p.stdout.splitlines() if l.startswith("VIOLATION") or l.startswith("INFRA")][:1]
        det = [l.strip() for l in p.stdout.splitlines() if l.strip().startswith("clause=")][:1]
        caught[c] = {"exit": p.returncode, "first": (first[0][:160] if first else ""), "clause": (det[0][:200] if det else ""), "summary": p.stdout.strip().splitlines()[-1][:160] if p.stdout.strip() else ""}
    res["checks"] = caught
    res["caught_by"] = [c for c, v in caught.items() if v["exit"] == 1]
    if confirmed:
        d = f"/verif/seeded/{cid}-{i}" if rnd == "1" else f"/verif/seeded/{cid}-r{rnd}-{i}"
        os.makedirs(d, exist_ok=True)
        shutil.copy(patch, d + "/patch.diff"); shutil.copy(demo, d + f"/demo_test.go.txt")
        m = {"property": cid, "round": int(rnd), "title": meta.get("title"), "needs": meta.get("needs"), "files": meta.get("files"), "demo_dir": demo_dir,
             "source": "independent sub-agent given only the property text and a scratch worktree",
             "confirmed": {"suite_passes_with_patch": True, "demo_fails_with_patch": True, "demo_passes_without_patch": True},
             "what_i_ran": ["git worktree add <scratch> HEAD; git apply patch.diff", "run_baseline.sh <scratch> -> passed=155",
                            f"go test -run '{pat}' ./{demo_dir}/ with the patch -> FAIL, without -> ok",
                            "VERIF_REPO=<scratch> ./bin/verif check <id> --tier " + os.environ.get("TIER", "quick")],
             "checks": caught, "caught_by": res["caught_by"]}
        json.dump(m, open(d + "/meta.json", "w"), indent=1)
    print(json.dumps({k: v for k, v in res.items() if k not in ("suite_output",)}, indent=1))
    if not res["demo_fails_with_patch"]:
        print("demo output with patch:", o_with[-800:])
    if not res["demo_passes_without_patch"]:
        print("demo output without patch:", o_wo[-800:])
finally:
    subprocess.call(["git", "-C", "/repo", "worktree", "remove", "--force", W])
    shutil.rmtree(W + ".out", ignore_errors=True)
