package main

import (
	"bytes"
	"context"
	"errors"
	"fmt"
	"time"

	"github.com/hedzr/logg/slog"
)

type W struct{ bytes.Buffer }

func main() {
	ts := time.Date(2024, 3, 4, 5, 6, 7, 123456789, time.UTC)
	for _, mode := range []string{"json", "logfmt", "color"} {
		var w bytes.Buffer
		l := slog.New("lg").SetWriter(&w).SetErrorWriter(&w).SetLevel(slog.TraceLevel)
		switch mode {
		case "json":
			l.SetJSONMode()
		case "logfmt":
			l.SetColorMode(false)
		}
		attrs := slog.Attrs{slog.String("s", "a b\"c"), slog.Int("i", -3), slog.Uint("u", 7), slog.Float64("f", 1.5),
			slog.Any("nil", nil), slog.Any("bytes", []byte("xy")), slog.Duration("d", 1500*time.Millisecond),
			slog.Time("t", ts), slog.Any("err", errors.New("boom")), slog.Group("g", "x", 1, slog.Group("h", "y", 2)),
			slog.Any("ss", []string{"a b", "c"}), slog.Any("is", []int{1, 2}), slog.Any("st", struct{ A int }{1}),
			slog.Complex128("c", complex(1, -2)), slog.Bool("b", true), slog.Group("e"), slog.String("z", "last")}
		l.WriteThru(context.Background(), slog.InfoLevel, ts, 0, "hello\nworld", attrs)
		l.WriteThru(context.Background(), slog.InfoLevel, ts, 0, "m", slog.Attrs{slog.Group("g", "x", 1), slog.Int("z", 1)})
		fmt.Printf("--- %s\n%q\n", mode, w.String())
	}
}
