package main

import (
	"bytes"
	"fmt"

	"github.com/hedzr/logg/slog"
)

type reent struct {
	l slog.Logger
	s string
}

func (r reent) String() string {
	r.l.Info("inner record", "ik", 1, slog.NewGroupedAttr("ig", slog.Int("m", 1)))
	return r.s
}

type plain struct{ s string }

func (r plain) String() string { return r.s }

func main() {
	slog.SetFlags(slog.LstdFlags | slog.LnoInterrupt)
	for _, f := range []string{"json", "logfmt", "color"} {
		for _, same := range []bool{false, true} {
			var b1, b2, bi bytes.Buffer
			mk := func(n string, b *bytes.Buffer) slog.Logger {
				l := slog.New(n).SetWriter(b).SetErrorWriter(b).SetLevel(slog.AlwaysLevel)
				switch f {
				case "json":
					l.SetJSONMode(true)
				case "logfmt":
					l.SetColorMode(false)
				default:
					l.SetColorMode(true)
				}
				return l
			}
			l1 := mk("o", &b1)
			l2 := mk("o", &b2)
			in := mk("in", &bi)
			if same {
				in = l1
			}
			l2.Info("outer", "a", 1, "v", plain{"val"}, slog.NewGroupedAttr("g", slog.Int("m", 1), slog.Any("w", plain{"val"})), "z", 2)
			l1.Info("outer", "a", 1, "v", reent{in, "val"}, slog.NewGroupedAttr("g", slog.Int("m", 1), slog.Any("w", reent{in, "val"})), "z", 2)
			fmt.Printf("%s same=%v\n ref %q\n got %q\n", f, same, b2.String(), b1.String())
		}
	}
}
