package main

import (
	"bytes"
	"context"
	"fmt"

	"github.com/hedzr/logg/slog"
)

func main() {
	snap := slog.VerifSnapshot()
	for i := 0; i < 2; i++ {
		slog.VerifRestore(snap)
		slog.SetFlags(slog.LstdFlags | slog.LnoInterrupt | slog.Lcaller)
		var b bytes.Buffer
		root := slog.VerifEntryOf(slog.New("root"))
		l := root.New("probed").SetWriter(&b).SetJSONMode(true).SetLevel(slog.AlwaysLevel)
		if i == 1 {
			restore := slog.SaveFlagsAndMod(slog.Lcaller, slog.Lprivacypath|slog.Lprivacypathregexp)
			l.LogAttrs(context.Background(), slog.ErrorLevel, "scoped")
			restore()
		}
		l.LogAttrs(context.Background(), slog.ErrorLevel, "after")
		fmt.Print(b.String())
	}
}
