package main

import (
	"bytes"
	"fmt"
	"time"

	"github.com/hedzr/logg/slog"
)

func main() {
	slog.SetFlags((slog.LstdFlags | slog.LnoInterrupt) &^ slog.Lcaller)
	for _, f := range []string{"json", "logfmt", "color"} {
		var b bytes.Buffer
		l := slog.New("o").SetWriter(&b).SetErrorWriter(&b).SetLevel(slog.AlwaysLevel)
		switch f {
		case "json":
			l.SetJSONMode(true)
		case "logfmt":
			l.SetColorMode(false)
		default:
			l.SetColorMode(true)
		}
		l.Info("m", "t", time.Date(12345, 6, 7, 8, 9, 10, 11, time.UTC), "neg", time.Date(-50, 6, 7, 8, 9, 10, 11, time.UTC), "lv", slog.Level(4242), "lv2", slog.WarnLevel)
		fmt.Printf("%s\n%s", f, b.String())
	}
}
