package main

import (
	"bytes"
	"context"
	"fmt"
	"time"

	"github.com/hedzr/logg/slog"
)

func main() {
	ts := time.Date(2024, 3, 4, 5, 6, 7, 123456789, time.UTC)
	for _, msg := range []string{"hello", "  lead", "a  b", "trail  ", "", "\nsecond", "a\nb\nc\n", "a\n\nb", "<b>x</b> y", "<b>x", "a & b", "x < y", "tab\there", "é"} {
		var w bytes.Buffer
		l := slog.New("lg").SetWriter(&w).SetErrorWriter(&w).SetLevel(slog.TraceLevel)
		l.WriteThru(context.Background(), slog.InfoLevel, ts, 0, msg, slog.Attrs{slog.Int("i", 1)})
		fmt.Printf("%q\n  -> %q\n", msg, slog.StripEscapes(w.String()))
	}
}
