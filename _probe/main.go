package main

import (
	"bytes"
	"fmt"

	"github.com/hedzr/logg/slog"
)

func main() {
	slog.SetFlags((slog.LstdFlags | slog.LnoInterrupt) &^ slog.Lcaller)
	for _, f := range []string{"json", "logfmt", "color"} {
		var b bytes.Buffer
		l := slog.New("o").SetWriter(&b).SetErrorWriter(&b).SetLevel(slog.AlwaysLevel)
		switch f {
		case "json":
			l.SetJSONMode(true)
		case "logfmt":
			l.SetColorMode(false)
		default:
			l.SetColorMode(true)
		}
		mem := func() []slog.Attr {
			return []slog.Attr{slog.Int("b", 2), slog.Int("a", 1), slog.NewGroupedAttr("h", slog.String("x", "y"))}
		}
		l.Info("m", slog.NewGroupedAttr("g", mem()...))
		l.Info("m", slog.NewAttr("g", slog.Attrs(mem())))
		l.Info("m", slog.NewAttr("g", mem()))
		l.Info("m", slog.Group("g", mem()[0], mem()[1], mem()[2]))
		l.Info("m", slog.NewGroupedAttrEasy("g", "b", 2, "a", 1, slog.NewGroupedAttr("h", slog.String("x", "y"))))
		l.Info("m", slog.NewAttr("g", slog.Attrs{}), slog.NewAttr("e", slog.Attrs{slog.NewAttr("in", slog.Attrs{})}))
		fmt.Printf("%s\n%s", f, b.String())
	}
}
