package main

import (
	"fmt"

	errorsv3 "gopkg.in/hedzr/errors.v3"
)

func main() {
	var e error = errorsv3.New("x").WithSkip(100).(error)
	if f, ok := e.(*errorsv3.WithStackInfo); ok {
		st := f.StackTrace()
		fmt.Println("stack nil?", st == nil, "len", len(st))
	} else {
		fmt.Printf("%T\n", e)
	}
}
