// Package vsync is a drop-in replacement for the parts of package sync that
// hedzr/logg uses, with scheduling points (DESIGN.md 2.2, rewrite R1). With no
// execution active every type behaves like the original.
package vsync

import (
	"sync"

	"verif/engine/sched"
)

type (
	Locker    = sync.Locker
	WaitGroup = sync.WaitGroup
	Map       = sync.Map
	Cond      = sync.Cond
)

func NewCond(l Locker) *Cond   { return sync.NewCond(l) }
func OnceFunc(f func()) func() { return sync.OnceFunc(f) }

// SingleGoroutine: outside a scheduled execution the harnesses drive the library from one goroutine. A lock
// that is already held can then only be held by the caller itself: blocking on it would hang the worker for
// good, so it panics instead (the harness reports the call as one that does not return).
var SingleGoroutine = true

func selfDeadlock(what string) {
	if SingleGoroutine {
		panic("self-deadlock: " + what + " of a lock the calling goroutine already holds (the call would never return)")
	}
}

// Mutex yields before locking and blocks cooperatively when contended.
type Mutex struct{ mu sync.Mutex }

func (m *Mutex) Lock() {
	sched.Point("mutex.lock")
	for !m.mu.TryLock() {
		if !sched.Active() {
			selfDeadlock("Mutex.Lock")
			m.mu.Lock()
			return
		}
		sched.Block("mutex.lock")
	}
}
func (m *Mutex) TryLock() bool { sched.Point("mutex.trylock"); return m.mu.TryLock() }
func (m *Mutex) Unlock()       { m.mu.Unlock(); sched.Unblock() }

type RWMutex struct{ mu sync.RWMutex }

func (m *RWMutex) Lock() {
	sched.Point("rwmutex.lock")
	for !m.mu.TryLock() {
		if !sched.Active() {
			selfDeadlock("RWMutex.Lock")
			m.mu.Lock()
			return
		}
		sched.Block("rwmutex.lock")
	}
}
func (m *RWMutex) Unlock() { m.mu.Unlock(); sched.Unblock() }
func (m *RWMutex) RLock() {
	sched.Point("rwmutex.rlock")
	for !m.mu.TryRLock() {
		if !sched.Active() {
			selfDeadlock("RWMutex.RLock")
			m.mu.RLock()
			return
		}
		sched.Block("rwmutex.rlock")
	}
}
func (m *RWMutex) RUnlock()        { m.mu.RUnlock(); sched.Unblock() }
func (m *RWMutex) TryLock() bool   { return m.mu.TryLock() }
func (m *RWMutex) TryRLock() bool  { return m.mu.TryRLock() }
func (m *RWMutex) RLocker() Locker { return m.mu.RLocker() }

// Once: the winner runs f; a loser that arrives while f is running blocks.
type Once struct {
	mu   Mutex
	done bool
}

func (o *Once) Do(f func()) {
	sched.Point("once.do")
	if o.done {
		return
	}
	o.mu.Lock()
	defer o.mu.Unlock()
	if !o.done {
		defer func() { o.done = true }()
		f()
	}
}

// Pool is an explicit list. Get returns, by default, the most recently Put
// object (or New()); under an execution the explorer chooses which stored
// object - or a fresh one - is returned, which is everything sync.Pool may do.
// NoPoolChoice makes Pool.Get deterministic (most recently Put object) even
// under an execution; harnesses whose property does not involve the pools set
// it so that pool choices do not multiply their exploration.
var NoPoolChoice bool

type Pool struct {
	New   func() any
	mu    sync.Mutex
	items []any
	// Stats for the harness (anti-vacuity): how often a stored object was reused.
	Reused, Fresh int
}

func (p *Pool) Get() any {
	sched.Point("pool.get")
	p.mu.Lock()
	n := len(p.items)
	alts := n
	if p.New != nil {
		alts++
	}
	ch := 0
	if alts > 1 && !NoPoolChoice {
		ch = sched.Choose("pool.get", alts)
	}
	if ch < n {
		// choice 0 = top of stack, 1 = the one below, ...
		i := n - 1 - ch
		x := p.items[i]
		p.items = append(p.items[:i], p.items[i+1:]...)
		p.Reused++
		p.mu.Unlock()
		return x
	}
	p.mu.Unlock()
	if p.New != nil {
		p.Fresh++
		return p.New()
	}
	return nil
}

func (p *Pool) Put(x any) {
	sched.Point("pool.put")
	if x == nil {
		return
	}
	p.mu.Lock()
	p.items = append(p.items, x)
	p.mu.Unlock()
}

// Len reports how many objects are stored (harness only).
func (p *Pool) Len() int { p.mu.Lock(); defer p.mu.Unlock(); return len(p.items) }

// generic helpers of package sync (no scheduling points needed: they wrap a Once)
func OnceValue[T any](f func() T) func() T                     { return sync.OnceValue(f) }
func OnceValues[T1, T2 any](f func() (T1, T2)) func() (T1, T2) { return sync.OnceValues(f) }
