// Package vatomic mirrors sync/atomic with a scheduling point before each
// operation (DESIGN.md 2.2, rewrite R1).
package vatomic

import (
	"sync/atomic"
	"unsafe"

	"verif/engine/sched"
)

type (
	Bool    = atomic.Bool
	Int32   = atomic.Int32
	Int64   = atomic.Int64
	Uint32  = atomic.Uint32
	Uint64  = atomic.Uint64
	Uintptr = atomic.Uintptr
	Value   = atomic.Value
)

type Pointer[T any] struct{ atomic.Pointer[T] }

func LoadInt32(p *int32) int32     { sched.Point("atomic.load"); return atomic.LoadInt32(p) }
func LoadInt64(p *int64) int64     { sched.Point("atomic.load"); return atomic.LoadInt64(p) }
func LoadUint32(p *uint32) uint32  { sched.Point("atomic.load"); return atomic.LoadUint32(p) }
func LoadUint64(p *uint64) uint64  { sched.Point("atomic.load"); return atomic.LoadUint64(p) }
func StoreInt32(p *int32, v int32) { sched.Point("atomic.store"); atomic.StoreInt32(p, v) }
func StoreInt64(p *int64, v int64) { sched.Point("atomic.store"); atomic.StoreInt64(p, v) }
func StoreUint32(p *uint32, v uint32) {
	sched.Point("atomic.store")
	atomic.StoreUint32(p, v)
}
func StoreUint64(p *uint64, v uint64) {
	sched.Point("atomic.store")
	atomic.StoreUint64(p, v)
}
func AddInt32(p *int32, d int32) int32 { sched.Point("atomic.add"); return atomic.AddInt32(p, d) }
func AddInt64(p *int64, d int64) int64 { sched.Point("atomic.add"); return atomic.AddInt64(p, d) }
func AddUint32(p *uint32, d uint32) uint32 {
	sched.Point("atomic.add")
	return atomic.AddUint32(p, d)
}
func AddUint64(p *uint64, d uint64) uint64 {
	sched.Point("atomic.add")
	return atomic.AddUint64(p, d)
}
func SwapInt32(p *int32, v int32) int32 { sched.Point("atomic.swap"); return atomic.SwapInt32(p, v) }
func SwapInt64(p *int64, v int64) int64 { sched.Point("atomic.swap"); return atomic.SwapInt64(p, v) }
func CompareAndSwapInt32(p *int32, o, n int32) bool {
	sched.Point("atomic.cas")
	return atomic.CompareAndSwapInt32(p, o, n)
}
func CompareAndSwapInt64(p *int64, o, n int64) bool {
	sched.Point("atomic.cas")
	return atomic.CompareAndSwapInt64(p, o, n)
}
func CompareAndSwapUint32(p *uint32, o, n uint32) bool {
	sched.Point("atomic.cas")
	return atomic.CompareAndSwapUint32(p, o, n)
}
func CompareAndSwapUint64(p *uint64, o, n uint64) bool {
	sched.Point("atomic.cas")
	return atomic.CompareAndSwapUint64(p, o, n)
}
func LoadPointer(p *unsafe.Pointer) unsafe.Pointer {
	sched.Point("atomic.load")
	return atomic.LoadPointer(p)
}
func StorePointer(p *unsafe.Pointer, v unsafe.Pointer) {
	sched.Point("atomic.store")
	atomic.StorePointer(p, v)
}

// the rest of sync/atomic's function API (so that a tree that starts using them still builds)
func SwapUint32(p *uint32, v uint32) uint32 {
	sched.Point("atomic.swap")
	return atomic.SwapUint32(p, v)
}
func SwapUint64(p *uint64, v uint64) uint64 {
	sched.Point("atomic.swap")
	return atomic.SwapUint64(p, v)
}
func SwapUintptr(p *uintptr, v uintptr) uintptr {
	sched.Point("atomic.swap")
	return atomic.SwapUintptr(p, v)
}
func SwapPointer(p *unsafe.Pointer, v unsafe.Pointer) unsafe.Pointer {
	sched.Point("atomic.swap")
	return atomic.SwapPointer(p, v)
}
func CompareAndSwapUintptr(p *uintptr, o, n uintptr) bool {
	sched.Point("atomic.cas")
	return atomic.CompareAndSwapUintptr(p, o, n)
}
func CompareAndSwapPointer(p *unsafe.Pointer, o, n unsafe.Pointer) bool {
	sched.Point("atomic.cas")
	return atomic.CompareAndSwapPointer(p, o, n)
}
func AddUintptr(p *uintptr, d uintptr) uintptr {
	sched.Point("atomic.add")
	return atomic.AddUintptr(p, d)
}
func LoadUintptr(p *uintptr) uintptr       { sched.Point("atomic.load"); return atomic.LoadUintptr(p) }
func StoreUintptr(p *uintptr, v uintptr)   { sched.Point("atomic.store"); atomic.StoreUintptr(p, v) }
func AndInt32(p *int32, m int32) int32     { sched.Point("atomic.and"); return atomic.AndInt32(p, m) }
func AndUint32(p *uint32, m uint32) uint32 { sched.Point("atomic.and"); return atomic.AndUint32(p, m) }
func AndInt64(p *int64, m int64) int64     { sched.Point("atomic.and"); return atomic.AndInt64(p, m) }
func AndUint64(p *uint64, m uint64) uint64 { sched.Point("atomic.and"); return atomic.AndUint64(p, m) }
func AndUintptr(p *uintptr, m uintptr) uintptr {
	sched.Point("atomic.and")
	return atomic.AndUintptr(p, m)
}
func OrInt32(p *int32, m int32) int32     { sched.Point("atomic.or"); return atomic.OrInt32(p, m) }
func OrUint32(p *uint32, m uint32) uint32 { sched.Point("atomic.or"); return atomic.OrUint32(p, m) }
func OrInt64(p *int64, m int64) int64     { sched.Point("atomic.or"); return atomic.OrInt64(p, m) }
func OrUint64(p *uint64, m uint64) uint64 { sched.Point("atomic.or"); return atomic.OrUint64(p, m) }
func OrUintptr(p *uintptr, m uintptr) uintptr {
	sched.Point("atomic.or")
	return atomic.OrUintptr(p, m)
}
