#!/bin/bash
# Runs the repository's own test suite (guard off) and prints the number of passing tests.
# usage: run_baseline.sh [repo-dir]
R=${1:-/repo}
export GOPROXY=off GOSUMDB=off GOTOOLCHAIN=local
unset GOFLAGS
fail=0
out=$(mktemp /var/tmp/baseline.XXXXXX)
for m in . tests; do
  (cd $R/$m && go test -json -vet=off -count=1 -timeout 25m ./... ) >> $out 2>&1 || fail=1
done
pass=$(grep -c '"Action":"pass".*"Test":' $out)
failed=$(grep '"Action":"fail".*"Test":' $out | head -20)
echo "passed=$pass fail_status=$fail"
[ -n "$failed" ] && echo "$failed"
rm -f $out
[ $fail = 0 ]
