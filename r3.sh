#!/bin/bash
# evaluate the deliveries of one property in round $ROUND (default 3): r3.sh Cxx [extra checks]
R=${ROUND:-3}
c=$1; shift
for i in 1 2 3; do
  [ -f /tmp/seeds/$c-out$R/patch$i.diff ] || continue
  ROUND=$R ./seed_eval.py $c $i "$@" > /var/tmp/r3-$c-$i.log 2>&1
  python3 - "$c" "$i" <<'PY'
import json,sys,re
c,i=sys.argv[1],sys.argv[2]
t=open(f'/var/tmp/r3-{c}-{i}.log').read()
try:
    j=json.loads(t[t.index('{'):t.rindex('}')+1])
    print(f"{c}-{i} confirmed={j.get('confirmed')} caught_by={j.get('caught_by')} :: {j.get('title','')[:110]}")
except Exception as e:
    print(c,i,"PARSE",t[-400:])
PY
done
[ -f /tmp/seeds/$c-out$R/neutral.diff ] && ROUND=$R ./neutral_eval.py $c "$@"
