#!/usr/bin/env python3
"""Re-run checks against a stored seeded change, working from /verif/seeded/<name>/ only.
usage: seed_recheck.py <name> [check-ids...]     (default: the seed's own property)
Applies patch.diff in a scratch worktree of /repo HEAD (under /var/tmp), runs the checks in snapshot mode
(VERIF_REPO), merges the results into meta.json and removes the worktree. CONFIRM=1 also re-confirms
suite-passes / demo-fails-with / demo-passes-without."""
import json, os, re, shutil, subprocess, sys, tempfile
name = sys.argv[1]
d = f"/verif/seeded/{name}"
meta = json.load(open(d + "/meta.json"))
cid = meta["property"]
checks = sys.argv[2:] or [cid]
env = dict(os.environ, GOPROXY="off", GOSUMDB="off", GOTOOLCHAIN="local"); env.pop("GOFLAGS", None)
W = tempfile.mkdtemp(prefix="sr-", dir="/var/tmp"); os.rmdir(W)
subprocess.check_call(["git", "-C", "/repo", "worktree", "add", "-q", "--detach", W, "HEAD"])
def run(cmd, cwd, timeout=1500):
    p = subprocess.run(cmd, cwd=cwd, env=env, shell=True, capture_output=True, text=True, timeout=timeout)
    return p.returncode, (p.stdout + p.stderr)[-3000:]
try:
    rc, o = run(f"git apply {d}/patch.diff", W)
    if rc != 0:
        print(name, "PATCH DOES NOT APPLY", o[-300:]); sys.exit(1)
    if os.environ.get("CONFIRM"):
        demo_dir = meta.get("demo_dir", "slog")
        rc, o = run("/verif/run_baseline.sh " + W, "/verif")
        ok_suite = rc == 0 and "passed=155" in o
        # the file keeps the name the sub-agent gave it (some demos compare the caller's file name with their own)
        idx = name.rsplit("-", 1)[-1]
        os.makedirs(os.path.join(W, demo_dir), exist_ok=True)  # some demos live in a directory of their own
        dst = os.path.join(W, demo_dir, f"demo{idx}_test.go")
        shutil.copy(d + "/demo_test.go.txt", dst)
        src = open(dst).read()
        names = re.findall(r"^func (Test\w+)\(", src, re.M)
        pat = "^(" + "|".join(names) + ")$"
        race = "-race " if re.search(r"^//go:build race", src, re.M) else ""  # a demo that shows a data race
        if meta.get("test_flags"):
            race += meta["test_flags"] + " "  # e.g. -tags verbose
        rc_with, _ = run(f"go test {race}-vet=off -count=1 -run '{pat}' ./{demo_dir}/", W)
        run(f"git apply -R {d}/patch.diff", W)
        rc_wo, _ = run(f"go test {race}-vet=off -count=1 -run '{pat}' ./{demo_dir}/", W)
        os.remove(dst)
        run(f"git apply {d}/patch.diff", W)
        meta["confirmed"] = {"suite_passes_with_patch": ok_suite, "demo_fails_with_patch": rc_with != 0, "demo_passes_without_patch": rc_wo == 0,
                             "repo_head": subprocess.check_output(["git", "-C", "/repo", "log", "-1", "--format=%h"], text=True).strip()}
    venv = dict(os.environ, VERIF_REPO=W, VERIF_OUT=W + ".out")
    res = meta.get("checks") or {}
    for c in checks:
        p = subprocess.run(["/verif/bin/verif", "check", c, "--tier", os.environ.get("TIER", "quick")], cwd="/verif", env=venv, capture_output=True, text=True, timeout=3000)
        first = [l for l in p.stdout.splitlines() if l.startswith("VIOLATION") or l.startswith("INFRA")][:1]
        det = [l.strip() for l in p.stdout.splitlines() if l.strip().startswith("clause=")][:1]
        res[c] = {"exit": p.returncode, "first": (first[0][:160] if first else ""), "clause": (det[0][:200] if det else ""),
                  "summary": p.stdout.strip().splitlines()[-1][:160] if p.stdout.strip() else ""}
    meta["checks"] = res
    meta["caught_by"] = sorted(c for c, v in res.items() if v["exit"] == 1)
    json.dump(meta, open(d + "/meta.json", "w"), indent=1)
    print(name, "caught_by", meta["caught_by"], "ran", checks, meta.get("confirmed") if os.environ.get("CONFIRM") else "")
finally:
    subprocess.call(["git", "-C", "/repo", "worktree", "remove", "--force", W])
    shutil.rmtree(W + ".out", ignore_errors=True)
