#!/usr/bin/env python3
# usage: kf_add.py <property> fixed|known <signature> <what>   (commit = /repo HEAD for fixed)
import json,sys,subprocess
prop,status,sig,what=sys.argv[1:5]
p='/verif/known-findings.json'
k=json.load(open(p))
e={'property':prop,'status':status,'signature':sig}
if status=='fixed':
    h=subprocess.check_output(['git','-C','/repo','log','-1','--format=%h']).decode().strip() if len(sys.argv)<6 else sys.argv[5]
    e['commit']=h
    e['what']=f'fixed: property={prop} {h} {what}'
else:
    e['what']=what
k['findings'].append(e)
json.dump(k,open(p,'w'),indent=1)
print(e)
