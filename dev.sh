#!/bin/bash
# developer aid: compile-check the worker against the current /repo through a fresh overlay
export GOFLAGS=-mod=mod GOPROXY=off GOSUMDB=off GOTOOLCHAIN=local GOWORK=off
cd /verif
go build -o bin/verif ./cmd/verif || exit 1
OV=/var/tmp/verif-dev-ov
./bin/verif overlay $OV >/dev/null || exit 1
case "$1" in
  vet) go vet -tags verif -overlay $OV/overlay.json ./worker/ ;;
  probe) shift; go run -tags verif -overlay $OV/overlay.json ./_probe "$@" ;;
  *) go build -tags verif -overlay $OV/overlay.json -o /dev/null ./worker/ ;;
esac
