//go:build verif

// This file is NOT part of hedzr/logg. It is added to package slog at build
// time through `go build -overlay` by /verif (see DESIGN.md 2.2, rewrite R5).
// It only reads / snapshots / restores private state so that the explorer can
// de-duplicate states and start every replay from the same global state.

package slog

import (
	"cmp"
	"fmt"
	"io"
	"iter"
	"os"
	"regexp"
	"sort"
	"strings"
	"time"

	"github.com/hedzr/is"
	"github.com/hedzr/is/term/color"

	istrings "github.com/hedzr/logg/slog/internal/strings"
	"github.com/hedzr/logg/slog/internal/times"
	sync "verif/shim/vsync"
)

// ---------------------------------------------------------------- seams

// VerifNowHook, when non-nil, replaces time.Now() inside the package (R3).
var VerifNowHook func() time.Time

func verifNow() time.Time {
	if h := VerifNowHook; h != nil {
		return h()
	}
	return time.Now()
}

// VerifPermHook, when non-nil, is asked for the permutation to apply to the
// canonical (sorted) key order of a map iteration (R2): it receives the number
// of keys and returns a permutation of 0..n-1 (nil = identity).
var VerifPermHook func(n int) []int

func verifMapOrder[K cmp.Ordered, V any](m map[K]V) iter.Seq2[K, V] {
	return func(yield func(K, V) bool) {
		keys := make([]K, 0, len(m))
		for k := range m {
			keys = append(keys, k)
		}
		sort.Slice(keys, func(i, j int) bool { return keys[i] < keys[j] })
		var perm []int
		if h := VerifPermHook; h != nil && len(keys) > 1 {
			perm = h(len(keys))
		}
		for i := range keys {
			k := keys[i]
			if perm != nil {
				k = keys[perm[i]]
			}
			v, ok := m[k]
			if !ok {
				continue
			}
			if !yield(k, v) {
				return
			}
		}
	}
}

// ---------------------------------------------------------------- degradation
//
// Every function of this file that touches private state of the package is a
// unit the driver can replace by a stub when the tree under check no longer
// compiles with it (a renamed or retyped private identifier): the stub has the
// same signature, calls verifMark(<its name>) and returns zero values. A check
// during which a stub was used reports no verdict (cmd/verif: "degraded").

var verifDegradedUsed []string

func verifMark(name string) {
	for _, n := range verifDegradedUsed {
		if n == name {
			return
		}
	}
	verifDegradedUsed = append(verifDegradedUsed, name)
}

// VerifDegradedUsed lists the stubbed functions that were called so far.
func VerifDegradedUsed() []string { return append([]string(nil), verifDegradedUsed...) }

// ---------------------------------------------------------------- globals snapshot

// VerifSnap is a snapshot of every mutable package global: a list of closures
// that put the saved values back (one per global, see the verifSnap* functions).
type VerifSnap struct {
	restore []func()
}

func cpMap[K comparable, V any](m map[K]V) map[K]V {
	if m == nil {
		return nil
	}
	r := make(map[K]V, len(m))
	for k, v := range m {
		r[k] = v
	}
	return r
}

func verifSnapAllLevels(s *VerifSnap) {
	c := append([]Level(nil), allLevels...)
	s.restore = append(s.restore, func() { allLevels = append([]Level(nil), c...) })
}

func verifSnapLevelToString(s *VerifSnap) {
	c := cpMap(levelToString)
	s.restore = append(s.restore, func() { levelToString = cpMap(c) })
}

func verifSnapStringToLevel(s *VerifSnap) {
	c := cpMap(stringToLevel)
	s.restore = append(s.restore, func() { stringToLevel = cpMap(c) })
}

func verifSnapShortTagMap(s *VerifSnap) {
	c := map[int]map[Level]string{}
	for k, v := range shortTagMap {
		c[k] = cpMap(v)
	}
	s.restore = append(s.restore, func() {
		shortTagMap = map[int]map[Level]string{}
		for k, v := range c {
			shortTagMap[k] = cpMap(v)
		}
	})
}

func verifSnapLevelColors(s *VerifSnap) {
	c := map[Level][]color.Color{}
	for k, v := range mLevelColors {
		c[k] = append([]color.Color(nil), v...)
	}
	s.restore = append(s.restore, func() {
		mLevelColors = map[Level][]color.Color{}
		for k, v := range c {
			mLevelColors[k] = append([]color.Color(nil), v...)
		}
	})
}

func verifSnapLevelIsEnabledAs(s *VerifSnap) {
	c := cpMap(mLevelIsEnabledAs)
	s.restore = append(s.restore, func() { mLevelIsEnabledAs = cpMap(c) })
}

func verifSnapLevelUseErrorDevice(s *VerifSnap) {
	c := cpMap(mLevelUseErrorDevice)
	s.restore = append(s.restore, func() { mLevelUseErrorDevice = cpMap(c) })
}

func verifSnapFlags(s *VerifSnap) {
	c := flags
	s.restore = append(s.restore, func() { flags = c })
}

func verifSnapLvlCurrent(s *VerifSnap) {
	c := lvlCurrent
	s.restore = append(s.restore, func() { lvlCurrent = c })
}

func verifSnapKnownPathMap(s *VerifSnap) {
	c := cpMap(knownPathMap)
	s.restore = append(s.restore, func() { knownPathMap = cpMap(c) })
}

func verifSnapKnownPathRegexpMap(s *VerifSnap) {
	c := append([]regRepl(nil), knownPathRegexpMap...)
	s.restore = append(s.restore, func() { knownPathRegexpMap = append([]regRepl(nil), c...) })
}

func verifSnapCodeHosting(s *VerifSnap) {
	c := cpMap(codeHostingProvidersMap)
	s.restore = append(s.restore, func() { codeHostingProvidersMap = cpMap(c) })
}

func verifSnapWidths(s *VerifSnap) {
	a, b := minimalMessageWidth, levelOutputWidth
	s.restore = append(s.restore, func() { minimalMessageWidth, levelOutputWidth = a, b })
}

func verifSnapModes(s *VerifSnap) {
	d, t := is.DebugMode(), is.TraceMode()
	s.restore = append(s.restore, func() { is.SetDebugMode(d); is.SetTraceMode(t) })
}

// verifFreshDefaults re-creates the default writer and the default logger (they are mutable objects).
func verifFreshDefaults() {
	defaultWriter = newDualWriter()
	defaultLog = newDetachedLogger()
}

func VerifSnapshot() *VerifSnap {
	s := &VerifSnap{}
	verifSnapAllLevels(s)
	verifSnapLevelToString(s)
	verifSnapStringToLevel(s)
	verifSnapShortTagMap(s)
	verifSnapLevelColors(s)
	verifSnapLevelIsEnabledAs(s)
	verifSnapLevelUseErrorDevice(s)
	verifSnapFlags(s)
	verifSnapLvlCurrent(s)
	verifSnapKnownPathMap(s)
	verifSnapKnownPathRegexpMap(s)
	verifSnapCodeHosting(s)
	verifSnapWidths(s)
	verifSnapModes(s)
	return s
}

// VerifRestore puts every mutable package global back to the snapshot. The
// default logger and default writer are re-created fresh and the pools replaced.
func VerifRestore(s *VerifSnap) {
	for _, f := range s.restore {
		f()
	}
	verifFreshDefaults()
	VerifResetPools()
}

// VerifResetPools replaces both pools by fresh ones and resets the warm-up size.
func VerifResetPools() {
	poolPrintCtx = sync.Pool{New: func() any { return newPrintCtx() }}
	poolAttrs = sync.Pool{New: func() any { return newFixedAttrs() }}
	fixedSize = 128
}

// VerifPools gives the harness access to the (shimmed) pools.
func VerifPools() (pcPool, attrsPool *sync.Pool) { return &poolPrintCtx, &poolAttrs }

func sortedKeys[K cmp.Ordered, V any](m map[K]V) []K {
	keys := make([]K, 0, len(m))
	for k := range m {
		keys = append(keys, k)
	}
	sort.Slice(keys, func(i, j int) bool { return keys[i] < keys[j] })
	return keys
}

// VerifDumpGlobals renders every mutable global table canonically.
func VerifDumpGlobals() string {
	var sb strings.Builder
	fmt.Fprintf(&sb, "allLevels=%v\n", allLevels)
	sb.WriteString("levelToString=")
	for _, k := range sortedKeys(levelToString) {
		fmt.Fprintf(&sb, "%d:%q,", int(k), levelToString[k])
	}
	sb.WriteString("\nstringToLevel=")
	for _, k := range sortedKeys(stringToLevel) {
		fmt.Fprintf(&sb, "%q:%d,", k, int(stringToLevel[k]))
	}
	sb.WriteString("\nshortTagMap=")
	for _, n := range sortedKeys(shortTagMap) {
		fmt.Fprintf(&sb, "[%d]", n)
		for _, k := range sortedKeys(shortTagMap[n]) {
			fmt.Fprintf(&sb, "%d:%q,", int(k), shortTagMap[n][k])
		}
	}
	sb.WriteString("\ncolors=")
	for _, k := range sortedKeys(mLevelColors) {
		fmt.Fprintf(&sb, "%d:%v,", int(k), mLevelColors[k])
	}
	sb.WriteString("\nenabledAs=")
	for _, k := range sortedKeys(mLevelIsEnabledAs) {
		fmt.Fprintf(&sb, "%d:%d,", int(k), int(mLevelIsEnabledAs[k]))
	}
	sb.WriteString("\nerrDevice=")
	for _, k := range sortedKeys(mLevelUseErrorDevice) {
		fmt.Fprintf(&sb, "%d:%v,", int(k), mLevelUseErrorDevice[k])
	}
	fmt.Fprintf(&sb, "\nflags=%d lvlCurrent=%d mmw=%d low=%d debug=%v trace=%v\n",
		int64(flags), int(lvlCurrent), minimalMessageWidth, levelOutputWidth, is.DebugMode(), is.TraceMode())
	sb.WriteString("knownPathMap=")
	for _, k := range sortedKeys(knownPathMap) {
		fmt.Fprintf(&sb, "%q:%q,", k, knownPathMap[k])
	}
	sb.WriteString("\nknownPathRegexpMap=")
	for _, r := range knownPathRegexpMap {
		fmt.Fprintf(&sb, "%q:%q,", r.expr.String(), r.repl)
	}
	sb.WriteString("\ncodeHosting=")
	for _, k := range sortedKeys(codeHostingProvidersMap) {
		fmt.Fprintf(&sb, "%q:%q,", k, codeHostingProvidersMap[k])
	}
	sb.WriteString("\n")
	return sb.String()
}

// VerifDumpRegistry renders only the level registry tables.
func VerifDumpRegistry() string {
	s := VerifDumpGlobals()
	if i := strings.Index(s, "\nflags="); i >= 0 {
		return s[:i]
	}
	return s
}

func VerifTreatedAs(l Level) (Level, bool) { t, ok := mLevelIsEnabledAs[l]; return t, ok }
func VerifUsesErrorDevice(l Level) bool    { _, ok := mLevelUseErrorDevice[l]; return ok }
func VerifHasColors(l Level) bool          { _, ok := mLevelColors[l]; return ok }
func VerifInTesting() bool                 { return inTesting }
func VerifIsDebug() bool                   { return isDebug || isDebugging }
func VerifHomeCwd() (string, string)       { return homeDir, currDir }
func VerifKnownPathMap() map[string]string { return cpMap(knownPathMap) }
func VerifKnownPathRegexps() (ret [][2]string) {
	for _, r := range knownPathRegexpMap {
		ret = append(ret, [2]string{r.expr.String(), r.repl})
	}
	return
}
func VerifSetKnownPathRegexps(list [][2]string) {
	knownPathRegexpMap = nil
	for _, r := range list {
		knownPathRegexpMap = append(knownPathRegexpMap, regRepl{regexp.MustCompile(r[0]), r[1]})
	}
}
func VerifSetHomeCwd(home, cwd string) {
	delete(knownPathMap, homeDir)
	delete(knownPathMap, currDir)
	homeDir, currDir = home, cwd
	if home != "" {
		knownPathMap[home] = "~"
	}
	if cwd != "" {
		knownPathMap[cwd] = "."
	}
}
func VerifLevelOutputWidth() int    { return levelOutputWidth }
func VerifMinimalMessageWidth() int { return minimalMessageWidth }
func VerifSetWidths(low, mmw int)   { levelOutputWidth, minimalMessageWidth = low, mmw }

// ---------------------------------------------------------------- entries

// VerifEntryOf unwraps a Logger to its *Entry.
func VerifEntryOf(l any) *Entry {
	switch z := l.(type) {
	case *Entry:
		return z
	case *logimp:
		return z.Entry
	case *handler4LogSlog:
		return VerifEntryOf(z.Logger)
	}
	return nil
}

type VerifEntryInfo struct {
	Ptr           *Entry
	Name          string
	Owner         *Entry
	Items         map[string]*Entry
	UseJSON       bool
	UseColor      bool
	TimeLayout    string
	ModeUTC       int
	Level         Level
	Attrs         Attrs
	HasWriter     bool
	Normal, Error []io.Writer
	Leveled       map[Level][]io.Writer
	ValueStringer ValueStringer
	HasHandlerOpt bool
	ExtraFrames   int
	ContextKeys   []any
}

func verifUnwrap(w LogWriter) io.Writer {
	switch z := w.(type) {
	case *logwr:
		return z.Writer
	case *filewr:
		return z.File
	}
	return w
}

func verifUnwrapList(l LWs) (ret []io.Writer) {
	for _, w := range l {
		ret = append(ret, verifUnwrap(w))
	}
	return
}

func VerifInfo(e *Entry) VerifEntryInfo {
	inf := VerifEntryInfo{
		Ptr: e, Name: e.name, Owner: e.owner, Items: e.items,
		UseJSON: e.useJSON, UseColor: e.useColor, TimeLayout: e.timeLayout, ModeUTC: e.modeUTC,
		Level: e.level, Attrs: e.attrs, ValueStringer: e.valueStringer,
		HasHandlerOpt: e.handlerOpt != nil, ExtraFrames: e.extraFrames, ContextKeys: e.contextKeys,
	}
	if e.writer != nil {
		inf.HasWriter = true
		inf.Normal, inf.Error, inf.Leveled = VerifDualWriterLists(e.writer)
	}
	return inf
}

func VerifDualWriterLists(d *dualWriter) (normal, errw []io.Writer, leveled map[Level][]io.Writer) {
	normal = verifUnwrapList(d.Normal)
	errw = verifUnwrapList(d.Error)
	if d.leveled != nil {
		leveled = map[Level][]io.Writer{}
		for k, v := range d.leveled {
			leveled[k] = verifUnwrapList(v)
		}
	}
	return
}

func VerifDefaultWriterLists() (normal, errw []io.Writer, leveled map[Level][]io.Writer) {
	return VerifDualWriterLists(defaultWriter)
}

func VerifStdFiles() (*os.File, *os.File) { return os.Stdout, os.Stderr }

// ---------------------------------------------------------------- PrintCtx internals (C19 state de-duplication)

func VerifPCState(pc *PrintCtx) (content []byte, off, ln, cp int, lastRead int) {
	return pc.buf, pc.off, len(pc.buf), cap(pc.buf), int(pc.lastRead)
}

// VerifNewPooledShapePC returns the shape of a pooled PrintCtx: zero length, 1024 cap.
func VerifNewPooledShapePC() *PrintCtx { return newPrintCtx() }

// ---------------------------------------------------------------- internal packages (C20, C05)

func VerifSmartDurationStringEx(d time.Duration, frac bool) string {
	return times.SmartDurationStringEx(d, frac)
}
func VerifParseDuration(s string) (time.Duration, error) { return times.ParseDuration(s) }
func VerifDotPrefix(leaf string, prefix ...string) string { return istrings.DotPrefix(leaf, prefix...) }

func VerifCheckedFuncName(name string) string { return checkedfuncname(name) }

// VerifRestoreModes sets the process-wide debug / trace switches of hedzr/is.
func VerifRestoreModes(debug, trace bool) {
	is.SetDebugMode(debug)
	is.SetTraceMode(trace)
}

func VerifDebugMode() bool { return is.DebugMode() }

// VerifRestoreKeepPools is VerifRestore without replacing the pools: whatever
// the previous case left in the pooled contexts / slices flows into the next one.
func VerifRestoreKeepPools(s *VerifSnap) {
	for _, f := range s.restore {
		f()
	}
	verifFreshDefaults()
}
