//go:build verif

// This file is NOT part of hedzr/logg. It is added to package slog at build
// time through `go build -overlay` by /verif (see DESIGN.md 2.2, rewrite R5).
// It only reads / snapshots / restores private state so that the explorer can
// de-duplicate states and start every replay from the same global state.

package slog

import (
	"cmp"
	"context"
	"fmt"
	"io"
	"iter"
	logslog "log/slog"
	"os"
	"reflect"
	"regexp"
	"sort"
	"strings"
	"time"
	"unsafe"

	"github.com/hedzr/is"

	"github.com/hedzr/logg/slog/internal/times"
)

// ---------------------------------------------------------------- seams

// VerifNowHook, when non-nil, replaces time.Now() inside the package (R3).
var VerifNowHook func() time.Time

func verifNow() time.Time {
	if h := VerifNowHook; h != nil {
		return h()
	}
	return time.Now()
}

// VerifPermHook, when non-nil, is asked for the permutation to apply to the
// canonical (sorted) key order of a map iteration (R2): it receives the number
// of keys and returns a permutation of 0..n-1 (nil = identity).
var VerifPermHook func(n int) []int

func verifMapOrder[K cmp.Ordered, V any](m map[K]V) iter.Seq2[K, V] {
	return func(yield func(K, V) bool) {
		keys := make([]K, 0, len(m))
		for k := range m {
			keys = append(keys, k)
		}
		sort.Slice(keys, func(i, j int) bool { return keys[i] < keys[j] })
		var perm []int
		if h := VerifPermHook; h != nil && len(keys) > 1 {
			perm = h(len(keys))
		}
		for i := range keys {
			k := keys[i]
			if perm != nil {
				k = keys[perm[i]]
			}
			v, ok := m[k]
			if !ok {
				continue
			}
			if !yield(k, v) {
				return
			}
		}
	}
}

// the process mode as the library determines it at start-up (same public functions of hedzr/is)
var (
	verifInTesting = is.InTesting()
	verifIsDebug   = is.DebugMode() || is.DebugBuild() || is.InDebugging()
)

// ---------------------------------------------------------------- degradation
//
// Every function of this file that touches private state of the package is a
// unit the driver can replace by a stub when the tree under check no longer
// compiles with it (a renamed or retyped private identifier): the stub has the
// same signature, calls verifMark(<its name>) and returns zero values. A check
// during which a stub was used reports no verdict (cmd/verif: "degraded").

var verifDegradedUsed []string

func verifMark(name string) {
	for _, n := range verifDegradedUsed {
		if n == name {
			return
		}
	}
	verifDegradedUsed = append(verifDegradedUsed, name)
}

// VerifTry runs f and reports whether f called a stubbed function for the first time; the marks f left are taken back, so a
// check that can do without what f reads keeps its verdict (it must then not use the values f produced).
func VerifTry(f func()) (stubUsed bool) {
	n := len(verifDegradedUsed)
	f()
	if len(verifDegradedUsed) > n {
		verifDegradedUsed = verifDegradedUsed[:n]
		return true
	}
	return false
}

// VerifDegradedUsed lists the stubbed functions that were called so far.
func VerifDegradedUsed() []string { return append([]string(nil), verifDegradedUsed...) }

// ---------------------------------------------------------------- globals snapshot

// VerifSnap is a snapshot of every mutable package global: a list of closures
// that put the saved values back (one per global, see the verifSnap* functions).
type VerifSnap struct {
	restore      []func() // one per package-level variable (not the pools)
	restorePools []func() // the sync.Pool variables
}

func cpMap[K comparable, V any](m map[K]V) map[K]V {
	if m == nil {
		return nil
	}
	r := make(map[K]V, len(m))
	for k, v := range m {
		r[k] = v
	}
	return r
}

// verifSnapVar saves a deep copy of one package-level variable and registers the closure that
// puts it back (called once per variable by the generated verifGenSnapshot*, see instrument.GenGlobals:
// the list of variables is read from the sources of the tree under check, not written down here).
func verifSnapVar[T any](s *VerifSnap, p *T) {
	c := verifDeepCopy(*p)
	s.restore = append(s.restore, func() { *p = verifDeepCopy(c) })
}

// verifSnapPoolVar: a pool is put back EMPTY (a zero value of its type with the same New function),
// whatever it held when the snapshot was taken.
func verifSnapPoolVar[T any](s *VerifSnap, p *T) {
	s.restorePools = append(s.restorePools, func() {
		fresh := reflect.New(reflect.TypeOf(p).Elem()).Elem()
		if f, old := fresh.FieldByName("New"), reflect.ValueOf(p).Elem().FieldByName("New"); f.IsValid() && old.IsValid() && f.CanSet() {
			f.Set(old)
		}
		*p = fresh.Interface().(T)
	})
}

// verifDeepCopy copies maps, slices and arrays recursively; everything else (scalars, structs,
// pointers, interfaces, funcs) is copied by assignment.
func verifDeepCopy[T any](v T) T {
	rv := reflect.ValueOf(&v).Elem()
	out := reflect.New(rv.Type()).Elem()
	out.Set(verifDeepCopyValue(rv))
	return out.Interface().(T)
}

func verifDeepCopyValue(v reflect.Value) reflect.Value {
	switch v.Kind() {
	case reflect.Map:
		if v.IsNil() {
			return v
		}
		m := reflect.MakeMapWithSize(v.Type(), v.Len())
		it := v.MapRange()
		for it.Next() {
			m.SetMapIndex(it.Key(), verifDeepCopyValue(it.Value()))
		}
		return m
	case reflect.Slice:
		if v.IsNil() {
			return v
		}
		sl := reflect.MakeSlice(v.Type(), v.Len(), v.Len())
		for i := 0; i < v.Len(); i++ {
			sl.Index(i).Set(verifDeepCopyValue(v.Index(i)))
		}
		return sl
	case reflect.Array:
		a := reflect.New(v.Type()).Elem()
		for i := 0; i < v.Len(); i++ {
			a.Index(i).Set(verifDeepCopyValue(v.Index(i)))
		}
		return a
	}
	return v
}

// verifDumpVar renders one package-level variable canonically (maps in key order; pointers,
// interfaces and funcs only as nil / set).
func verifDumpVar[T any](sb *strings.Builder, name string, p *T) {
	sb.WriteString(name)
	sb.WriteByte('=')
	verifCanon(sb, reflect.ValueOf(p).Elem(), 0)
	sb.WriteByte('\n')
}

func verifCanon(sb *strings.Builder, v reflect.Value, depth int) {
	if depth > 6 {
		sb.WriteString("...")
		return
	}
	switch v.Kind() {
	case reflect.Bool:
		fmt.Fprint(sb, v.Bool())
	case reflect.Int, reflect.Int8, reflect.Int16, reflect.Int32, reflect.Int64:
		fmt.Fprint(sb, v.Int())
	case reflect.Uint, reflect.Uint8, reflect.Uint16, reflect.Uint32, reflect.Uint64, reflect.Uintptr:
		fmt.Fprint(sb, v.Uint())
	case reflect.Float32, reflect.Float64:
		fmt.Fprint(sb, v.Float())
	case reflect.Complex64, reflect.Complex128:
		fmt.Fprint(sb, v.Complex())
	case reflect.String:
		fmt.Fprintf(sb, "%q", v.String())
	case reflect.Map:
		if v.IsNil() {
			sb.WriteString("nil")
			return
		}
		type kv struct {
			k string
			v reflect.Value
		}
		var kvs []kv
		it := v.MapRange()
		for it.Next() {
			var kb strings.Builder
			verifCanon(&kb, it.Key(), depth+1)
			kvs = append(kvs, kv{kb.String(), it.Value()})
		}
		sort.Slice(kvs, func(i, j int) bool { return kvs[i].k < kvs[j].k })
		sb.WriteByte('{')
		for _, e := range kvs {
			sb.WriteString(e.k)
			sb.WriteByte(':')
			verifCanon(sb, e.v, depth+1)
			sb.WriteByte(',')
		}
		sb.WriteByte('}')
	case reflect.Slice, reflect.Array:
		if v.Kind() == reflect.Slice && v.IsNil() {
			sb.WriteString("nil")
			return
		}
		sb.WriteByte('[')
		for i := 0; i < v.Len(); i++ {
			verifCanon(sb, v.Index(i), depth+1)
			sb.WriteByte(',')
		}
		sb.WriteByte(']')
	case reflect.Struct:
		sb.WriteByte('{')
		for i := 0; i < v.NumField(); i++ {
			sb.WriteString(v.Type().Field(i).Name)
			sb.WriteByte(':')
			verifCanon(sb, v.Field(i), depth+1)
			sb.WriteByte(',')
		}
		sb.WriteByte('}')
	case reflect.Ptr, reflect.Interface, reflect.Func, reflect.Chan, reflect.UnsafePointer:
		if v.IsNil() {
			sb.WriteString("nil")
		} else if v.Kind() == reflect.Ptr && v.Type().String() == "*regexp.Regexp" && v.CanInterface() {
			fmt.Fprintf(sb, "%q", v.Interface().(*regexp.Regexp).String())
		} else {
			sb.WriteString("set")
		}
	default:
		sb.WriteString("?")
	}
}

func verifSnapModes(s *VerifSnap) {
	d, t := is.DebugMode(), is.TraceMode()
	s.restore = append(s.restore, func() { is.SetDebugMode(d); is.SetTraceMode(t) })
}

// verifFreshDefaults re-creates the default writer and the default logger (they are mutable objects).
func verifFreshDefaults() {
	defaultWriter = newDualWriter()
	defaultLog = newDetachedLogger()
}

func VerifSnapshot() *VerifSnap {
	s := &VerifSnap{}
	verifGenSnapshot(s)
	verifGenSnapshotPools(s)
	verifSnapModes(s)
	return s
}

// VerifRestore puts every mutable package global back to the snapshot. The
// default logger and default writer are re-created fresh and the pools replaced
// by what they were when the snapshot was taken (empty, at process start).
func VerifRestore(s *VerifSnap) {
	for _, f := range s.restore {
		f()
	}
	for _, f := range s.restorePools {
		f()
	}
	verifFreshDefaults()
}

// VerifResetPools empties the pools (puts back their state at snapshot time).
func VerifResetPools(s *VerifSnap) {
	for _, f := range s.restorePools {
		f()
	}
}

func sortedKeys[K cmp.Ordered, V any](m map[K]V) []K {
	keys := make([]K, 0, len(m))
	for k := range m {
		keys = append(keys, k)
	}
	sort.Slice(keys, func(i, j int) bool { return keys[i] < keys[j] })
	return keys
}

// VerifDumpGlobals renders every package-level variable canonically (generated list), plus the
// process-wide debug/trace modes and the level of the default logger.
func VerifDumpGlobals() string {
	var sb strings.Builder
	verifGenDump(&sb)
	fmt.Fprintf(&sb, "debug=%v trace=%v\n", is.DebugMode(), is.TraceMode())
	if d := Default(); d != nil {
		fmt.Fprintf(&sb, "default.level=%d\n", int(d.Level()))
	}
	return sb.String()
}

// VerifDumpRegistry renders the package-level variables whose type mentions Level (the registry tables).
func VerifDumpRegistry() string {
	var sb strings.Builder
	verifGenDumpLevels(&sb)
	return sb.String()
}

func VerifInTesting() bool                 { return verifInTesting }
func VerifIsDebug() bool                   { return verifIsDebug }
func VerifKnownPathMap() map[string]string { return cpMap(knownPathMap) }

// VerifKnownPathRegexps lists the regexp rules: each element of the table is read by the TYPES of its fields (one
// *regexp.Regexp, one string), not by their names.
func VerifKnownPathRegexps() (ret [][2]string) {
	tv := reflect.ValueOf(&knownPathRegexpMap).Elem()
	if tv.Kind() != reflect.Slice && tv.Kind() != reflect.Array {
		verifMark("VerifKnownPathRegexps: the table of regexp rules is not a list")
		return
	}
	for i := 0; i < tv.Len(); i++ {
		el := tv.Index(i)
		for el.Kind() == reflect.Ptr || el.Kind() == reflect.Interface {
			if el.IsNil() {
				break
			}
			el = el.Elem()
		}
		if el.Kind() != reflect.Struct {
			verifMark("VerifKnownPathRegexps: a regexp rule is not a struct")
			return
		}
		// the shape is decided by the TYPES of the fields (exactly one *regexp.Regexp, exactly one string); what the
		// fields hold is state: a rule whose pattern is nil is listed as such
		var expr *regexp.Regexp
		repl, nstr, nre := "", 0, 0
		for j := 0; j < el.NumField(); j++ {
			switch el.Field(j).Type() {
			case reflect.TypeOf((*regexp.Regexp)(nil)):
				nre++
				expr, _ = verifFieldValue(el.Field(j)).(*regexp.Regexp)
			case reflect.TypeOf(""):
				nstr++
				repl, _ = verifFieldValue(el.Field(j)).(string)
			}
		}
		if nre != 1 || nstr != 1 {
			verifMark("VerifKnownPathRegexps: a regexp rule is not a (pattern, replacement) pair of the known shape")
			return
		}
		if expr == nil {
			ret = append(ret, [2]string{"<nil pattern>", repl})
			continue
		}
		ret = append(ret, [2]string{expr.String(), repl})
	}
	return
}
func VerifLevelOutputWidth() int    { return levelOutputWidth }
func VerifMinimalMessageWidth() int { return minimalMessageWidth }
func VerifSetWidths(low, mmw int)   { levelOutputWidth, minimalMessageWidth = low, mmw }

// ---------------------------------------------------------------- entries

// VerifEntryOf unwraps a Logger to its *Entry.
func VerifEntryOf(l any) *Entry {
	if e, ok := l.(*Entry); ok {
		return e
	}
	// a wrapper of the package around a logger: a struct that embeds *Entry or a Logger
	rv := reflect.ValueOf(l)
	if rv.Kind() == reflect.Ptr && !rv.IsNil() && rv.Elem().Kind() == reflect.Struct {
		st := rv.Elem()
		for i := 0; i < st.NumField(); i++ {
			if !st.Type().Field(i).Anonymous {
				continue
			}
			switch v := verifFieldValue(st.Field(i)).(type) {
			case *Entry:
				return v
			case Logger:
				if v != nil {
					return VerifEntryOf(v)
				}
			}
		}
	}
	return nil
}

type VerifEntryInfo struct {
	Ptr           *Entry
	Name          string
	Owner         *Entry
	Items         map[string]*Entry
	UseJSON       bool
	UseColor      bool
	TimeLayout    string
	ModeUTC       int
	Level         Level
	Attrs         Attrs
	HasWriter     bool
	Normal, Error []io.Writer
	Leveled       map[Level][]io.Writer
	ValueStringer ValueStringer
	HasHandlerOpt bool
	ExtraFrames   int
	ContextKeys   []any
}

func verifUnwrap(w LogWriter) io.Writer {
	// a wrapper type of the library around the caller's io.Writer / *os.File: a struct that embeds it
	rv := reflect.ValueOf(w)
	if rv.Kind() == reflect.Ptr && !rv.IsNil() && rv.Elem().Kind() == reflect.Struct && rv.Type().Elem().PkgPath() == reflect.TypeOf(Entry{}).PkgPath() {
		st := rv.Elem()
		for i := 0; i < st.NumField(); i++ {
			f := st.Field(i)
			if !st.Type().Field(i).Anonymous {
				continue
			}
			if x, ok := verifFieldValue(f).(io.Writer); ok && x != nil {
				return x
			}
		}
	}
	return w
}

func verifUnwrapList(l LWs) (ret []io.Writer) {
	for _, w := range l {
		ret = append(ret, verifUnwrap(w))
	}
	return
}

// verifFieldValue reads a struct field (also an unexported one) of an addressable struct value.
func verifFieldValue(f reflect.Value) any {
	if f.CanInterface() {
		return f.Interface()
	}
	if !f.CanAddr() {
		return nil
	}
	return reflect.NewAt(f.Type(), unsafe.Pointer(f.UnsafeAddr())).Elem().Interface()
}

// VerifInfo reads the private state of a logger. Nothing here names a field: public getters are used
// where the API has them (Name, Parent, JSONMode, ColorMode, Level, Skip), the other fields are found
// by their TYPE (the only map[string]*Entry is the table of children, the only Attrs the logger's own
// attributes, ...). Where two fields have the same type (the time layout next to the name; the UTC mode
// next to the skip count) the one whose value differs from the getter's answer is taken - if both hold
// the same value the choice does not matter.
func VerifInfo(e *Entry) VerifEntryInfo {
	inf := VerifEntryInfo{Ptr: e, Name: e.Name(), Owner: e.Parent(), UseJSON: e.JSONMode(), UseColor: e.ColorMode(), Level: e.Level(), ExtraFrames: e.Skip()}
	st := reflect.ValueOf(e).Elem()
	var strs []string
	var ints []int
	for i := 0; i < st.NumField(); i++ {
		f := st.Field(i)
		switch v := verifFieldValue(f).(type) {
		case map[string]*Entry:
			inf.Items = v
		case Attrs:
			inf.Attrs = v
		case ValueStringer:
			inf.ValueStringer = v
		case logslogHandler:
			inf.HasHandlerOpt = v != nil
		case []any:
			inf.ContextKeys = v
		case string:
			strs = append(strs, v)
		case int:
			ints = append(ints, v)
		case Level:
			// (e.Level() may be computed; the stored one is what the model compares)
			inf.Level = v
		default:
			// integers and strings of named types (a zone mode declared as its own type, ...) count like plain ones
			switch f.Kind() {
			case reflect.Int, reflect.Int8, reflect.Int16, reflect.Int32, reflect.Int64:
				ints = append(ints, int(f.Int()))
				continue
			case reflect.Uint, reflect.Uint8, reflect.Uint16, reflect.Uint32, reflect.Uint64:
				ints = append(ints, int(f.Uint()))
				continue
			case reflect.String:
				strs = append(strs, f.String())
				continue
			}
			// the writer set: a pointer to a struct of the package that has LWs fields
			if f.Kind() == reflect.Ptr && !f.IsNil() && f.Type().Elem().Kind() == reflect.Struct {
				if n, er, lv, ok := verifWriterSet(reflect.NewAt(f.Type(), unsafe.Pointer(f.UnsafeAddr())).Elem().Elem()); ok {
					inf.HasWriter = true
					inf.Normal, inf.Error, inf.Leveled = n, er, lv
				}
			}
		}
	}
	for _, v := range strs {
		if v != inf.Name {
			inf.TimeLayout = v
		}
	}
	if len(strs) >= 2 && inf.TimeLayout == "" && inf.Name != "" {
		same := 0
		for _, v := range strs {
			if v == inf.Name {
				same++
			}
		}
		if same >= 2 {
			inf.TimeLayout = inf.Name
		}
	}
	for _, v := range ints {
		if v != inf.ExtraFrames {
			inf.ModeUTC = v
		}
	}
	if len(ints) >= 2 && inf.ModeUTC == 0 {
		same := 0
		for _, v := range ints {
			if v == inf.ExtraFrames {
				same++
			}
		}
		if same >= 2 {
			inf.ModeUTC = inf.ExtraFrames
		}
	}
	return inf
}

type logslogHandler = interface {
	Enabled(context.Context, logslog.Level) bool
	Handle(context.Context, logslog.Record) error
	WithAttrs(attrs []logslog.Attr) logslog.Handler
	WithGroup(name string) logslog.Handler
}

// verifWriterSet reads a writer set (struct with two LWs fields named Normal and Error - exported names -
// and a map from Level to LWs).
func verifWriterSet(d reflect.Value) (normal, errw []io.Writer, leveled map[Level][]io.Writer, ok bool) {
	if d.Kind() != reflect.Struct {
		return
	}
	fn, fe := d.FieldByName("Normal"), d.FieldByName("Error")
	if !fn.IsValid() || !fe.IsValid() {
		return
	}
	n, ok1 := verifFieldValue(fn).(LWs)
	e, ok2 := verifFieldValue(fe).(LWs)
	if !ok1 || !ok2 {
		return
	}
	normal, errw, ok = verifUnwrapList(n), verifUnwrapList(e), true
	// the per-level table: a map from Level to LWs, or any list of (Level, LWs) pairs - found by its shape, not by its name
	found := false
	for i := 0; i < d.NumField(); i++ {
		f := d.Field(i)
		if m, isMap := verifFieldValue(f).(map[Level]LWs); isMap {
			found = true
			if m != nil {
				leveled = map[Level][]io.Writer{}
				for k, v := range m {
					leveled[k] = verifUnwrapList(v)
				}
			}
			continue
		}
		if f.Kind() != reflect.Slice && f.Kind() != reflect.Array {
			continue
		}
		et := f.Type().Elem()
		if et.Kind() == reflect.Ptr {
			et = et.Elem()
		}
		if et.Kind() != reflect.Struct {
			continue
		}
		li, wi := -1, -1
		for j := 0; j < et.NumField(); j++ {
			switch et.Field(j).Type {
			case reflect.TypeOf(Level(0)):
				li = j
			case reflect.TypeOf(LWs(nil)):
				wi = j
			}
		}
		if li < 0 || wi < 0 {
			continue
		}
		found = true
		for k := 0; k < f.Len(); k++ {
			el := f.Index(k)
			if el.Kind() == reflect.Ptr {
				if el.IsNil() {
					continue
				}
				el = el.Elem()
			}
			lv, ok1 := verifFieldValue(el.Field(li)).(Level)
			ws, ok2 := verifFieldValue(el.Field(wi)).(LWs)
			if !ok1 || !ok2 {
				continue
			}
			if leveled == nil {
				leveled = map[Level][]io.Writer{}
			}
			leveled[lv] = verifUnwrapList(ws)
		}
	}
	if !found {
		// the table of per-level writers has a shape this reader does not know: no verdict rather than a wrong one
		verifMark("VerifInfo: the per-level writer table of the writer set was not recognised")
	}
	return
}

func VerifStdFiles() (*os.File, *os.File) { return os.Stdout, os.Stderr }

// ---------------------------------------------------------------- PrintCtx internals (C19 state de-duplication)

func VerifPCState(pc *PrintCtx) (content []byte, off, ln, cp int, lastRead int) {
	return pc.buf, pc.off, len(pc.buf), cap(pc.buf), int(pc.lastRead)
}

// VerifNewPooledShapePC returns the shape of a pooled PrintCtx: zero length, 1024 cap.
func VerifNewPooledShapePC() *PrintCtx { return newPrintCtx() }

// ---------------------------------------------------------------- internal packages (C20, C05)

func VerifSmartDurationStringEx(d time.Duration, frac bool) string {
	return times.SmartDurationStringEx(d, frac)
}
func VerifParseDuration(s string) (time.Duration, error) { return times.ParseDuration(s) }

func VerifCheckedFuncName(name string) string { return checkedfuncname(name) }

// VerifRestoreModes sets the process-wide debug / trace switches of hedzr/is.
func VerifRestoreModes(debug, trace bool) {
	is.SetDebugMode(debug)
	is.SetTraceMode(trace)
}

func VerifDebugMode() bool { return is.DebugMode() }

// VerifRestoreKeepPools is VerifRestore without replacing the pools: whatever
// the previous case left in the pooled contexts / slices flows into the next one.
func VerifRestoreKeepPools(s *VerifSnap) {
	for _, f := range s.restore {
		f()
	}
	verifFreshDefaults()
}
