#!/usr/bin/env python3
"""Evaluate a behaviour-preserving change written by a sub-agent: no check may raise an alarm on it.
usage: ROUND=<n> neutral_eval.py <Cxx> [extra-check-ids...]   (reads /tmp/seeds/<Cxx>-out<n>/neutral.diff|json, or /verif/seeded/<Cxx>-r<n>-neutral/)
Stores it under /verif/seeded/<Cxx>-r<n>-neutral/ with the results."""
import json, os, shutil, subprocess, sys, tempfile
cid = sys.argv[1]; extra = sys.argv[2:]
rnd = os.environ.get("ROUND", "3")
d = f"/verif/seeded/{cid}-r{rnd}-neutral"
src = f"/tmp/seeds/{cid}-out{rnd}"
if os.path.exists(d + "/meta.json") and os.path.exists(d + "/patch.diff"):
    meta = json.load(open(d + "/meta.json"))  # already stored (possibly rebased by hand onto later fixes): never overwritten from the delivery
elif os.path.exists(src + "/neutral.diff"):
    os.makedirs(d, exist_ok=True)
    shutil.copy(src + "/neutral.diff", d + "/patch.diff")
    meta = json.load(open(src + "/neutral.json")) if os.path.exists(src + "/neutral.json") else {}
else:
    meta = json.load(open(d + "/meta.json"))
env = dict(os.environ, GOPROXY="off", GOSUMDB="off", GOTOOLCHAIN="local"); env.pop("GOFLAGS", None)
W = tempfile.mkdtemp(prefix="ne-", dir="/var/tmp"); os.rmdir(W)
subprocess.check_call(["git", "-C", "/repo", "worktree", "add", "-q", "--detach", W, "HEAD"])
try:
    p = subprocess.run(f"git apply {d}/patch.diff", cwd=W, shell=True, capture_output=True, text=True)
    if p.returncode != 0:
        print(cid, "neutral patch does not apply", p.stderr[-300:]); sys.exit(1)
    p = subprocess.run("/verif/run_baseline.sh " + W, cwd="/verif", env=env, shell=True, capture_output=True, text=True)
    suite_ok = p.returncode == 0 and "passed=155" in p.stdout + p.stderr
    venv = dict(os.environ, VERIF_REPO=W, VERIF_OUT=W + ".out")
    res = meta.get("checks") or {}
    for c in [cid] + [c for c in extra if c != cid]:
        q = subprocess.run(["/verif/bin/verif", "check", c, "--tier", os.environ.get("TIER", "quick")], cwd="/verif", env=venv, capture_output=True, text=True, timeout=3000)
        first = [l for l in q.stdout.splitlines() if l.startswith("VIOLATION") or l.startswith("INFRA")][:1]
        det = [l.strip() for l in q.stdout.splitlines() if l.strip().startswith("clause=")][:1]
        res[c] = {"exit": q.returncode, "first": (first[0][:200] if first else ""), "clause": (det[0][:300] if det else ""),
                  "summary": q.stdout.strip().splitlines()[-1][:160] if q.stdout.strip() else ""}
    m = {"property": cid, "round": int(rnd), "kind": "behaviour-preserving change (no check may report it)", "title": meta.get("title"), "why_neutral": meta.get("why_neutral"),
         "files": meta.get("files"), "source": "independent sub-agent given only the property text and a scratch worktree",
         "suite_passes_with_patch": suite_ok, "checks": res,
         "alarms": sorted(c for c, v in res.items() if v["exit"] != 0 or v["first"].startswith("VIOLATION")),
         "no_verdict": sorted(c for c, v in res.items() if v["first"].startswith("INFRA"))}
    if meta.get("rebased"):
        m["rebased"] = meta["rebased"]
    json.dump(m, open(d + "/meta.json", "w"), indent=1)
    print(cid, "neutral: suite_ok", suite_ok, "alarms", m["alarms"], "no_verdict", m["no_verdict"], {c: (v["first"] or v["clause"])[:160] for c, v in res.items() if v["exit"] != 0 or v["first"]})
finally:
    subprocess.call(["git", "-C", "/repo", "worktree", "remove", "--force", W])
    shutil.rmtree(W + ".out", ignore_errors=True)
