package main

// C02 - exactly-once, whole-record delivery for any arguments. Shape I.

import (
	"context"
	"encoding/json"
	"errors"
	"fmt"
	"io"
	"regexp"
	"strconv"
	"strings"
	"time"

	"github.com/hedzr/logg/slog"
)

type c02tok struct {
	name string
	mk   func() any
}

func c02tokens() []c02tok {
	return []c02tok{
		{`"k"`, func() any { return "k" }},
		{`""`, func() any { return "" }},
		{`"a b"`, func() any { return "a b" }},
		{"nil", func() any { return nil }},
		{"1", func() any { return 1 }},
		{`"v"`, func() any { return "v" }},
		{"[]byte(x)", func() any { return []byte("x") }},
		{"error", func() any { return errors.New("boom") }},
		{"struct{}", func() any { return struct{}{} }},
		{"Attr", func() any { return slog.NewAttr("attr", 7) }},
		{"Attrs{2}", func() any { return slog.Attrs{slog.NewAttr("a1", 1), slog.NewAttr("a2", "x")} }},
		{"[]Attr{1}", func() any { return []slog.Attr{slog.NewAttr("s1", true)} }},
		{"Attrs{}", func() any { return slog.Attrs{} }},
		{"Group(empty)", func() any { return slog.Group("ge") }},
		{"Group(flat)", func() any { return slog.Group("gf", "x", 1, "y", "s") }},
		{"Group(nested2)", func() any { return slog.Group("g2", "x", 1, slog.Group("h", "y", 2)) }},
		{"Group(nested3)", func() any { return slog.Group("g3", slog.Group("h", slog.Group("i", "z", 3))) }},
		{"Group(dangling)", func() any { return slog.Group("gd", "x") }},
		{"42(in key position)", func() any { return 42 }},
		{"true", func() any { return true }},
		{"nil Attr", func() any { var a slog.Attr; return a }},
		{"float NaN", func() any { return nanValue() }},
		{"time", func() any { return tsUTC }},
		{"[]string", func() any { return []string{"a", "b c"} }},
		{"Stringer that logs", func() any { return reentV{"re-entrant"} }},
		{"(*int)(nil)", func() any { return (*int)(nil) }},
		{"&int", func() any { n := 7; return &n }},
		{"nil map", func() any { return map[string]int(nil) }},
		{"func", func() any { return func() {} }},
		{"nil chan", func() any { return (chan int)(nil) }},
		{"complex", func() any { return complex(1, -2) }},
		{"[2]int", func() any { return [2]int{1, 2} }},
	}
}

func nanValue() float64 { var z float64; return z / z }

var c02msgs = []string{"m", "", " ", "\n", "\t\r\n", "a\nb", "a\n", "a\nb\n", "\nx", "\n\nx\n", "a\r\nb\r\n", "\r\nx", "\xff\xfe", strings.Repeat("0123456789", 200), strings.Repeat("seventy KB ", 7000), "a\x00b", "\x1b[31mred", "  x  ", "<b>m</b>", "%d %s", `"quoted"`}

type c02entry struct {
	name  string
	sev   slog.Level
	blank bool // Print/Println family: blank message => single newline
	call  func(l *slog.Entry, msg string, args []any)
}

func c02entries() []c02entry {
	return []c02entry{
		{"Panic", slog.PanicLevel, false, func(l *slog.Entry, m string, a []any) { l.Panic(m, a...) }},
		{"Fatal", slog.FatalLevel, false, func(l *slog.Entry, m string, a []any) { l.Fatal(m, a...) }},
		{"Error", slog.ErrorLevel, false, func(l *slog.Entry, m string, a []any) { l.Error(m, a...) }},
		{"Warn", slog.WarnLevel, false, func(l *slog.Entry, m string, a []any) { l.Warn(m, a...) }},
		{"Info", slog.InfoLevel, false, func(l *slog.Entry, m string, a []any) { l.Info(m, a...) }},
		{"Debug", slog.DebugLevel, false, func(l *slog.Entry, m string, a []any) { l.Debug(m, a...) }},
		{"Trace", slog.TraceLevel, false, func(l *slog.Entry, m string, a []any) { l.Trace(m, a...) }},
		{"OK", slog.OKLevel, false, func(l *slog.Entry, m string, a []any) { l.OK(m, a...) }},
		{"Success", slog.SuccessLevel, false, func(l *slog.Entry, m string, a []any) { l.Success(m, a...) }},
		{"Fail", slog.FailLevel, false, func(l *slog.Entry, m string, a []any) { l.Fail(m, a...) }},
		{"Print", slog.AlwaysLevel, true, func(l *slog.Entry, m string, a []any) { l.Print(m, a...) }},
		{"Println(msg,...)", slog.AlwaysLevel, true, func(l *slog.Entry, m string, a []any) { l.Println(append([]any{m}, a...)...) }},
		{"Println()", slog.AlwaysLevel, true, func(l *slog.Entry, m string, a []any) { l.Println() }},
		{"Println(args only)", slog.AlwaysLevel, true, func(l *slog.Entry, m string, a []any) { l.Println(a...) }},
		{"PrintContext", slog.AlwaysLevel, true, func(l *slog.Entry, m string, a []any) { l.PrintContext(bg, m, a...) }},
		{"LogAttrs(Info)", slog.InfoLevel, false, func(l *slog.Entry, m string, a []any) { l.LogAttrs(bg, slog.InfoLevel, m, a...) }},
		{"InfoContext(nil ctx)", slog.InfoLevel, false, func(l *slog.Entry, m string, a []any) { l.InfoContext(nilCtx(), m, a...) }},
		// the explicit-timestamp entry point, handed no program counter (a queued record replayed by a worker): layer C2 only
		{"WriteThru(Info, no program counter)", slog.InfoLevel, false, func(l *slog.Entry, m string, a []any) { l.WriteThru(bg, slog.InfoLevel, fixedTime, 0, m, slog.NewAttrs("k", 1, "s", "v")) }},
		{"slog.Println(args only) [default logger]", slog.AlwaysLevel, true, nil},
		{"slog.Info [default logger]", slog.InfoLevel, false, nil},
	}
}

func nilCtx() context.Context { return nil }

type c02case struct {
	Layer  string   `json:"layer"`
	Entry  string   `json:"entry"`
	MsgQ   string   `json:"msg"`
	Args   []string `json:"args"`
	Format string   `json:"format"`
	Flags  []string `json:"flags"`
	Level  int      `json:"logger_level"`
	Dest   int      `json:"dest_set"`
	VS     bool     `json:"value_stringer,omitempty"` // the logger has a ValueStringer that writes to whatever device it is handed through SetWriter
	Prior  bool     `json:"prior_record,omitempty"` // another logger formatted a colored multi-line record (trailing newline, error value) just before
}

var c02flagNames = map[string]slog.Flags{"Lcaller": slog.Lcaller, "LattrsR": slog.LattrsR, "LlocalTime": slog.LlocalTime}

var c02dests = []string{"1 normal", "2 normal + 2 error", "2 normal + 2 error + per-level(Info,Always)", "2 normal + 2 error + per-level writers (Info,Warn,Error,Always) added and removed again", "9 normal + 9 error",
	"2 normal + 2 error writers without a Close method; the sets the logger hands out (GetWriter / GetWriterBy) were closed before the call"}

// c02configure builds the destination set; returns writer names by class.
func c02configure(l *slog.Entry, rec *recorder, dest int) (normal, errw []string, leveled map[slog.Level][]string) {
	mk := func(n string) io.Writer { return &plainW{n, rec} }
	leveled = map[slog.Level][]string{}
	switch dest {
	case 0:
		w := mk("n1")
		l.SetWriter(w).SetErrorWriter(w)
		return []string{"n1"}, []string{"n1"}, leveled
	case 5:
		l.SetWriter(mk("n1")).AddWriter(mk("n2"))
		l.SetErrorWriter(mk("e1")).AddErrorWriter(mk("e2"))
		// a shutdown path closed what it was handed; writers that have no Close method stay what they are
		for _, lv := range []slog.Level{slog.InfoLevel, slog.ErrorLevel, slog.AlwaysLevel} {
			if w := l.GetWriterBy(lv); w != nil {
				_ = w.Close()
			}
		}
		return []string{"n1", "n2"}, []string{"e1", "e2"}, leveled
	case 4:
		for i := 1; i <= 9; i++ {
			l.AddWriter(mk(fmt.Sprintf("n%d", i)))
			l.AddErrorWriter(mk(fmt.Sprintf("e%d", i)))
			normal, errw = append(normal, fmt.Sprintf("n%d", i)), append(errw, fmt.Sprintf("e%d", i))
		}
		return
	default:
		l.SetWriter(mk("n1")).AddWriter(&closerW{plainW: plainW{"n2", rec}})
		l.SetErrorWriter(mk("e1")).AddErrorWriter(mk("e2"))
		normal, errw = []string{"n1", "n2"}, []string{"e1", "e2"}
		if dest == 2 {
			l.AddLevelWriter(slog.InfoLevel, mk("li"))
			l.AddLevelWriter(slog.AlwaysLevel, mk("la"))
			leveled[slog.InfoLevel] = []string{"li"}
			leveled[slog.AlwaysLevel] = []string{"la"}
		}
		if dest == 3 {
			for _, lv := range []slog.Level{slog.InfoLevel, slog.WarnLevel, slog.ErrorLevel, slog.AlwaysLevel} {
				x := mk("gone")
				l.AddLevelWriter(lv, x)
				l.RemoveLevelWriter(lv, x)
			}
		}
		return
	}
}

// c02issue performs the call on logger l (always from this one function, so
// that the caller information of the two runs is identical).
func c02issue(e *c02entry, l *slog.Entry, msg string, args []any) string {
	return catch(func() {
		switch e.name {
		case "slog.Println(args only) [default logger]":
			slog.Println(args...)
		case "slog.Info [default logger]":
			slog.Info(msg, args...)
		default:
			e.call(l, msg, args)
		}
	})
}

func c02eval(cas c02case) *Violation {
	toks := c02tokens()
	var ent *c02entry
	ents := c02entries()
	for i := range ents {
		if ents[i].name == cas.Entry {
			ent = &ents[i]
		}
	}
	if ent == nil {
		return nil
	}
	msg, err := strconv.Unquote(cas.MsgQ)
	if err != nil {
		msg = cas.MsgQ
	}
	mkArgs := func() []any {
		var args []any
		for _, a := range cas.Args {
			for _, t := range toks {
				if t.name == a {
					args = append(args, t.mk())
				}
			}
		}
		return args
	}
	var fl slog.Flags
	for _, f := range cas.Flags {
		fl |= c02flagNames[f]
	}
	mkViol := func(clause, detail string) *Violation {
		sig := fmt.Sprintf("C02|%s|entry=%s|msg=%s|args=%s|format=%s|prior=%v%s", clause, cas.Entry, cas.MsgQ, strings.Join(cas.Args, ","), cas.Format, cas.Prior, map[bool]string{true: "|value-stringer"}[cas.VS])
		return mkViolation(sig, clause, detail+fmt.Sprintf(" [logger level %s, flags %v, destinations %s]", levelName(slog.Level(cas.Level)), cas.Flags, c02dests[cas.Dest]), cas)
	}
	run := func(dest int) (rec *recorder, pan string, normal, errw []string, leveled map[slog.Level][]string) {
		caseSeq++
		resetAlt(caseSeq)
		setFlagsVia((slog.LstdFlags&^(slog.Lcaller|slog.LattrsR|slog.LlocalTime))|fl|slog.LnoInterrupt, caseSeq/2)
		slog.VerifNowHook = func() time.Time { return fixedTime }
		defer func() { slog.VerifNowHook = nil }()
		rec = &recorder{}
		var l *slog.Entry
		if strings.Contains(ent.name, "[default logger]") {
			l = slog.VerifEntryOf(slog.Default())
		} else {
			l = slog.VerifEntryOf(slog.New("lg"))
		}
		normal, errw, leveled = c02configure(l, rec, dest)
		if cas.VS {
			l.SetValueStringer(&c02vs{})
		}
		// SetLevel(Debug/Trace) flips the process-wide debug mode; keep it off
		l.SetLevel(slog.Level(cas.Level))
		c01restoreModes()
		switch cas.Format {
		case "json":
			l.SetJSONMode(true)
		case "logfmt":
			l.SetColorMode(false)
		default:
			l.SetColorMode(true)
		}
		if cas.Prior {
			o := slog.New("other").SetWriter(io.Discard).SetErrorWriter(io.Discard).SetLevel(slog.AlwaysLevel).SetColorMode(true)
			// blank lines first (they take a shortcut through the print path), then a multi-line coloured record
			o.Println()
			o.Print("")
			o.Print("\n")
			o.Error("prior line one\nprior line two\n", "err", errors.New("prior"), slog.Group("pg", "x", 1), slog.Group("pz"))
		}
		pan = c02issue(ent, l, msg, mkArgs())
		return
	}
	rec, pan, normal, errw, leveled := run(cas.Dest)
	if pan != "" {
		return mkViol("call-returns", "the call panicked: "+firstLine(pan))
	}
	// effective message for the blank rule
	effMsg := msg
	switch ent.name {
	case "Println()":
		effMsg = ""
	case "Println(args only)", "slog.Println(args only) [default logger]":
		effMsg = ""
		if len(cas.Args) > 0 {
			// first argument is the message when it is a string, otherwise the message is unspecified
			a0 := mkArgs()[0]
			if s, ok := a0.(string); ok {
				effMsg = s
			} else {
				effMsg = "\x00unspecified"
			}
		}
	}
	admit, fixed := refAdmit(slog.Level(cas.Level), ent.sev, false, nil)
	if !fixed {
		return nil
	}
	if !admit {
		if len(rec.events) > 0 {
			return mkViol("not-admitted-silent", fmt.Sprintf("call is not admitted but %d Write(s) happened: %.120q", len(rec.events), rec.events[0].Payload))
		}
		return nil
	}
	// selected destinations
	sel := normal
	if lw := leveled[ent.sev]; len(lw) > 0 {
		sel = lw
	} else if refErrorClass(ent.sev, nil) {
		sel = errw
	}
	got := map[string][]string{}
	for _, e := range rec.events {
		got[e.W] = append(got[e.W], e.Payload)
	}
	selected := map[string]bool{}
	for _, n := range sel {
		selected[n] = true
	}
	var ref string
	for _, n := range sel {
		ps := got[n]
		if len(ps) != 1 {
			return mkViol("exactly-one-write", fmt.Sprintf("selected destination %s received %d Writes (%.200q)", n, len(ps), ps))
		}
		if !strings.HasSuffix(ps[0], "\n") {
			return mkViol("ends-with-newline", fmt.Sprintf("payload to %s does not end with a newline: %.200q", n, ps[0]))
		}
		if ref == "" {
			ref = ps[0]
		} else if ps[0] != ref {
			return mkViol("identical-payloads", fmt.Sprintf("destinations received different bytes: %.150q vs %.150q", ref, ps[0]))
		}
	}
	for n, ps := range got {
		if !selected[n] {
			return mkViol("only-selected", fmt.Sprintf("destination %s is not selected for severity %s but received %.120q", n, levelName(ent.sev), ps[0]))
		}
	}
	c02lastRef = ref
	if ent.blank && effMsg != "\x00unspecified" && strings.Trim(effMsg, "\n\r \t") == "" {
		if ref != "\n" {
			return mkViol("blank-print-is-newline", fmt.Sprintf("blank Print/Println delivered %.120q instead of a single newline", ref))
		}
		return nil
	}
	// wholeness: same call into a single fresh destination gives the same bytes
	if cas.Dest != 0 {
		rec2, pan2, _, _, _ := run(0)
		if pan2 != "" || len(rec2.events) != 1 {
			return mkViol("wholeness", fmt.Sprintf("reference run into one destination: panic=%q writes=%d", firstLine(pan2), len(rec2.events)))
		}
		if normPtr(rec2.events[0].Payload) != normPtr(ref) {
			return mkViol("wholeness", fmt.Sprintf("payload differs from the single-destination run: %.200q vs %.200q", ref, rec2.events[0].Payload))
		}
	}
	return nil
}

// c01restoreModes switches the process-wide debug/trace modes off again.
var c02lastRef string

var ptrRe = regexp.MustCompile(`0x[0-9a-f]{6,16}`)

// normPtr masks pointer values that %v prints for pointer-carrying arguments
// (they legitimately differ between two runs of the same call).
func normPtr(s string) string { return ptrRe.ReplaceAllString(s, "0xPTR") }

// c02vs is a value stringer that prints the value to the device it was handed (the interface has a SetWriter method).
type c02vs struct{ w io.Writer }

func (v *c02vs) SetWriter(w io.Writer) { v.w = w }
func (v *c02vs) WriteValue(val any) {
	if v.w != nil {
		fmt.Fprintf(v.w, "%v", val)
	}
}

func c01restoreModes() {
	slog.VerifRestoreModes(false, false)
}

func c02cases(thorough bool, emit func(c02case)) {
	toks := c02tokens()
	var ents []c02entry
	for _, e := range c02entries() {
		if !strings.HasPrefix(e.name, "WriteThru(") { // (not gated by the logger level: used in its own layer only)
			ents = append(ents, e)
		}
	}
	formats := []string{"color", "json", "logfmt"}
	// all argument lists up to maxLen
	maxLen := 2
	if thorough {
		maxLen = 3
	}
	var lists [][]string
	var rec func(prefix []string)
	rec = func(prefix []string) {
		lists = append(lists, append([]string{}, prefix...))
		if len(prefix) == maxLen {
			return
		}
		for _, t := range toks {
			rec(append(prefix, t.name))
		}
	}
	rec(nil)
	// A: lists x entries x formats
	for _, l := range lists {
		for _, e := range ents {
			for _, f := range formats {
				emit(c02case{Layer: "A-args", Entry: e.name, MsgQ: qk("m"), Args: l, Format: f, Level: int(slog.TraceLevel), Dest: len(l) % 3})
				for _, a := range l {
					if a == "Stringer that logs" {
						// a value that logs while its record is formatted, after the pools were used by blank lines and another logger
						emit(c02case{Layer: "A2-args-after-prior-records", Entry: e.name, MsgQ: qk("m"), Args: l, Format: f, Level: int(slog.TraceLevel), Dest: len(l) % 3, Prior: true})
						break
					}
				}
			}
		}
	}
	// A4 (thorough): lists of length 4 over the tokens that change the parser state (keys, dangling, containers)
	if thorough {
		small := []string{`"k"`, `""`, "nil", "1", "Attr", "Attrs{2}", "Group(flat)", "Group(dangling)", "42(in key position)", "nil Attr"}
		var rec4 func(prefix []string)
		rec4 = func(prefix []string) {
			if len(prefix) == 4 {
				for _, e := range []string{"Info", "Error", "Println(args only)", "PrintContext", "slog.Info [default logger]"} {
					for _, f := range formats {
						emit(c02case{Layer: "A4-args", Entry: e, MsgQ: qk("m"), Args: append([]string{}, prefix...), Format: f, Level: int(slog.TraceLevel), Dest: 1})
					}
				}
				return
			}
			for _, t := range small {
				rec4(append(prefix, t))
			}
		}
		rec4(nil)
	}
	// B: messages x entries x formats x logger levels x destination sets
	levels := []slog.Level{slog.OffLevel, slog.ErrorLevel, slog.InfoLevel, slog.TraceLevel, slog.AlwaysLevel}
	for _, m := range c02msgs {
		for _, e := range ents {
			for _, f := range formats {
				for _, lv := range levels {
					for d := 0; d < 6; d++ {
						emit(c02case{Layer: "B-msg-level-dest", Entry: e.name, MsgQ: qk(m), Args: []string{`"k"`, "1"}, Format: f, Level: int(lv), Dest: d})
						if d == 0 && lv == slog.TraceLevel {
							emit(c02case{Layer: "B2-after-a-prior-record", Entry: e.name, MsgQ: qk(m), Args: []string{`"k"`, "1"}, Format: f, Level: int(lv), Dest: d, Prior: true})
						}
						if strings.Contains(m, "\n") && lv == slog.TraceLevel {
							emit(c02case{Layer: "B-msg-level-dest", Entry: e.name, MsgQ: qk(m), Args: []string{`"k"`, "error", "Group(flat)"}, Format: f, Level: int(lv), Dest: d})
						}
					}
				}
			}
		}
	}
	// B3: a logger with a value stringer (given after the writers)
	for _, e := range ents {
		for _, f := range formats {
			for d := 0; d < 3; d++ {
				emit(c02case{Layer: "B3-value-stringer", Entry: e.name, MsgQ: qk("m"), Args: []string{`"k"`, "1", `"s"`, `"k"`}, Format: f, Level: int(slog.TraceLevel), Dest: d, VS: true})
			}
		}
	}
	// C: flag subsets
	fl := []string{"Lcaller", "LattrsR", "LlocalTime"}
	for mask := 0; mask < 8; mask++ {
		var fs []string
		for i, n := range fl {
			if mask&(1<<i) != 0 {
				fs = append(fs, n)
			}
		}
		for _, f := range formats {
			for d := 0; d < 3; d++ {
				emit(c02case{Layer: "C2-flags-no-program-counter", Entry: "WriteThru(Info, no program counter)", MsgQ: qk("a\nb"), Format: f, Flags: fs, Level: int(slog.TraceLevel), Dest: d})
			}
			for _, t := range toks {
				for d := 0; d < 3; d++ {
					for _, e := range []string{"Info", "Error", "Print", "slog.Info [default logger]"} {
						emit(c02case{Layer: "C-flags", Entry: e, MsgQ: qk("a\nb"), Args: []string{t.name, `"v"`}, Format: f, Flags: fs, Level: int(slog.TraceLevel), Dest: d})
					}
				}
			}
		}
	}
}

func init() {
	register(&CheckDef{ID: "C02", Run: c02run, Replay: func(raw json.RawMessage) *Violation {
		var cas c02case
		if json.Unmarshal(raw, &cas) != nil {
			return nil
		}
		return c02eval(cas)
	}})
}

func c02run(c *Ctx) {
	c.Flag("exhaustive", true)
	n := 0
	layers := map[string]int64{}
	c02cases(c.Thorough(), func(cas c02case) {
		n++
		if !c.Mine(n) {
			return
		}
		if c.Expired() {
			return
		}
		c.Count("evaluations", 1)
		layers[cas.Layer]++
		if v := c02eval(cas); v != nil {
			c.Violate(v)
			return
		}
		c.Count("distinct_nontrivial", 1)
		c.Outcome(normPtr(c02lastRef))
		if n%9973 == 0 {
			c.Sample(cas)
		}
	})
	for k, v := range layers {
		c.Count("layer_"+k, v)
	}
	c.Info("argument_tokens", len(c02tokens()))
	c.Info("entry_points", len(c02entries()))
	c.Assume("values whose own methods panic and cyclic values are excluded (statement)")
	c.Assume("Println whose first argument is not a string: only 'returns normally' and the delivery clauses are checked, not which text is the message")
}
