// Package log is user code in a package that is itself NAMED log - the usual name for an application's own
// logging wrapper. Its call sites are user code like any other (C14): the caller of a record issued here is here.
package log

import (
	stdlog "log"
	logslog "log/slog"
	"runtime"

	"github.com/hedzr/logg/slog"
)

// Site is the position of a statement in this package.
type Site struct {
	PC   uintptr
	File string
	Line int
	Fn   string
}

func here() Site {
	var pcs [1]uintptr
	if runtime.Callers(3, pcs[:]) < 1 {
		return Site{}
	}
	fr, _ := runtime.CallersFrames(pcs[:]).Next()
	return Site{pcs[0], fr.File, fr.Line, fr.Function}
}

func mark(s *Site) string { *s = here(); return "m" }

// every call and its capture share ONE source line

func ViaBridgePrint(std *stdlog.Logger) (s Site)  { std.Print(mark(&s)); return }
func ViaBridgePrintf(std *stdlog.Logger) (s Site) { std.Printf(mark(&s)+" %d", 1); return }
func ViaBridgeOutput(std *stdlog.Logger) (s Site) { _ = std.Output(1, mark(&s)); return }
func ViaNativeInfo(l slog.Logger) (s Site)        { l.Info(mark(&s), "k", 1); return }
func ViaAdapterWarn(sl *logslog.Logger) (s Site)  { sl.Warn(mark(&s), "k", 1); return }
func ViaPackageLevelError() (s Site)              { slog.Error(mark(&s), "k", 1); return }
