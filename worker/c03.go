package main

// C03 - severity routing and writer-set configuration. Shape H: BFS over
// histories of writer-configuration operations, de-duplicated on the logger's
// writer lists by identity; after every transition the lists are compared with
// the reference semantics of the operation and, in every new state, one probe
// record per severity class checks the routing (including the stdout/stderr
// fallback, observed through the worker's redirected fds).

import (
	"encoding/json"
	"fmt"
	"io"
	"os"
	"strings"

	"github.com/hedzr/logg/slog"
)

const (
	c03Notice = slog.Level(18) // custom, treated as Info, normal device
	c03Swell  = slog.Level(72) // custom, treated as Error, error device (an ordinal beyond 63)
	c03Late   = slog.Level(31) // custom, treated as Error, error device - registered by its probe, i.e. after the history
)

type c03world struct {
	rec     *recorder
	writers []io.Writer // w1 plain, w2 closer, w3 level-settable
	names   map[io.Writer]string
	l       *slog.Entry
	soOff   int64
	seOff   int64
	w1file  *os.File // root 3: writer w1 is this file
}

var c03levels = []slog.Level{slog.InfoLevel, slog.ErrorLevel, c03Swell}

type c03op struct {
	name string
	f    func(w *c03world)
	opt  func(w *c03world) slog.Opt // option form for New(...), nil if none
	// ref computes the acceptable successor configurations
	ref func(w *c03world, m c03cfg) []c03cfg
}

// c03cfg is a writer configuration by writer name.
type c03cfg struct {
	Normal  []string            `json:"normal"`
	Error   []string            `json:"error"`
	Leveled map[string][]string `json:"leveled"`
}

func (c c03cfg) key() string {
	var sb strings.Builder
	fmt.Fprintf(&sb, "N%v E%v", c.Normal, c.Error)
	for _, l := range c03levels {
		if v := c.Leveled[levelName(l)]; len(v) > 0 {
			fmt.Fprintf(&sb, " %s%v", levelName(l), v)
		}
	}
	return sb.String()
}

func (c c03cfg) clone() c03cfg {
	n := c03cfg{Normal: append([]string{}, c.Normal...), Error: append([]string{}, c.Error...), Leveled: map[string][]string{}}
	for k, v := range c.Leveled {
		if len(v) > 0 {
			n.Leveled[k] = append([]string{}, v...)
		}
	}
	return n
}

func c03default() c03cfg {
	return c03cfg{Normal: []string{"stdout"}, Error: []string{"stderr"}, Leveled: map[string][]string{}}
}

func removeOne(list []string, name string) [][]string {
	// acceptable results of "remove deletes that writer": any single occurrence, or all of them
	var res [][]string
	idxs := []int{}
	for i, x := range list {
		if x == name {
			idxs = append(idxs, i)
		}
	}
	if len(idxs) == 0 {
		return [][]string{append([]string{}, list...)}
	}
	for _, i := range idxs {
		r := append(append([]string{}, list[:i]...), list[i+1:]...)
		res = append(res, r)
	}
	if len(idxs) > 1 {
		var all []string
		for _, x := range list {
			if x != name {
				all = append(all, x)
			}
		}
		res = append(res, all)
	}
	return res
}

func c03ops() []c03op {
	var ops []c03op
	wn := []string{"w1", "w2", "w3"}
	for i := 0; i < 3; i++ {
		i := i
		n := wn[i]
		ops = append(ops,
			c03op{"SetWriter(" + n + ")", func(w *c03world) { w.l.SetWriter(w.writers[i]) },
				func(w *c03world) slog.Opt { return slog.WithWriter(w.writers[i]) },
				func(w *c03world, m c03cfg) []c03cfg { m.Normal = []string{n}; return []c03cfg{m} }},
			c03op{"AddWriter(" + n + ")", func(w *c03world) { w.l.AddWriter(w.writers[i]) },
				func(w *c03world) slog.Opt { return slog.AddWriter(w.writers[i]) },
				func(w *c03world, m c03cfg) []c03cfg { m.Normal = append(m.Normal, n); return []c03cfg{m} }},
			c03op{"RemoveWriter(" + n + ")", func(w *c03world) { w.l.RemoveWriter(w.writers[i]) }, nil,
				func(w *c03world, m c03cfg) (r []c03cfg) {
					for _, l := range removeOne(m.Normal, n) {
						x := m.clone()
						x.Normal = l
						r = append(r, x)
					}
					return
				}},
			c03op{"SetErrorWriter(" + n + ")", func(w *c03world) { w.l.SetErrorWriter(w.writers[i]) },
				func(w *c03world) slog.Opt { return slog.WithErrorWriter(w.writers[i]) },
				func(w *c03world, m c03cfg) []c03cfg { m.Error = []string{n}; return []c03cfg{m} }},
			c03op{"AddErrorWriter(" + n + ")", func(w *c03world) { w.l.AddErrorWriter(w.writers[i]) },
				func(w *c03world) slog.Opt { return slog.AddErrorWriter(w.writers[i]) },
				func(w *c03world, m c03cfg) []c03cfg { m.Error = append(m.Error, n); return []c03cfg{m} }},
			c03op{"RemoveErrorWriter(" + n + ")", func(w *c03world) { w.l.RemoveErrorWriter(w.writers[i]) }, nil,
				func(w *c03world, m c03cfg) (r []c03cfg) {
					for _, l := range removeOne(m.Error, n) {
						x := m.clone()
						x.Error = l
						r = append(r, x)
					}
					return
				}},
		)
		for _, lv := range c03levels {
			lv := lv
			ln := levelName(lv)
			ops = append(ops,
				c03op{fmt.Sprintf("AddLevelWriter(%s,%s)", ln, n), func(w *c03world) { w.l.AddLevelWriter(lv, w.writers[i]) },
					func(w *c03world) slog.Opt { return slog.AddLevelWriter(lv, w.writers[i]) },
					func(w *c03world, m c03cfg) []c03cfg {
						m.Leveled[ln] = append(m.Leveled[ln], n)
						return []c03cfg{m}
					}},
				c03op{fmt.Sprintf("RemoveLevelWriter(%s,%s)", ln, n), func(w *c03world) { w.l.RemoveLevelWriter(lv, w.writers[i]) },
					func(w *c03world) slog.Opt { return slog.RemoveLevelWriter(lv, w.writers[i]) },
					func(w *c03world, m c03cfg) (r []c03cfg) {
						for _, l := range removeOne(m.Leveled[ln], n) {
							x := m.clone()
							if len(l) > 0 {
								x.Leveled[ln] = l
							} else {
								delete(x.Leveled, ln)
							}
							r = append(r, x)
						}
						return
					}},
			)
		}
	}
	for _, lv := range c03levels {
		lv := lv
		ln := levelName(lv)
		ops = append(ops, c03op{"ResetLevelWriter(" + ln + ")", func(w *c03world) { w.l.ResetLevelWriter(lv) },
			func(w *c03world) slog.Opt { return slog.ResetLevelWriter(lv) },
			func(w *c03world, m c03cfg) []c03cfg { delete(m.Leveled, ln); return []c03cfg{m} }})
	}
	ops = append(ops, c03op{"ResetLevelWriters()", func(w *c03world) { w.l.ResetLevelWriters() },
		func(w *c03world) slog.Opt { return slog.ResetLevelWriters() },
		func(w *c03world, m c03cfg) []c03cfg { m.Leveled = map[string][]string{}; return []c03cfg{m} }})
	ops = append(ops, c03op{"ResetWriters()", func(w *c03world) { w.l.ResetWriters() },
		func(w *c03world) slog.Opt { return slog.ResetWriters() },
		func(w *c03world, m c03cfg) []c03cfg { return []c03cfg{c03default()} }})
	return ops
}

var c03roots = []string{"fresh detached logger", "child of a configured parent", "first op given as New(...) option", "fresh detached logger; writer w1 is an *os.File"}

func c03newWorld(root int, firstOpt *c03op) *c03world {
	resetGlobals()
	_ = slog.RegisterLevel(c03Notice, "notice18", slog.RegWithTreatedAsLevel(slog.InfoLevel))
	_ = slog.RegisterLevel(c03Swell, "swell72", slog.RegWithTreatedAsLevel(slog.ErrorLevel), slog.RegWithPrintToErrorDevice(true))
	w := &c03world{rec: &recorder{}, names: map[io.Writer]string{}}
	var w1 io.Writer = &plainW{"w1", w.rec}
	if root == 3 {
		// the first writer of the pool is an *os.File (what it receives is read back from the file)
		f, err := os.CreateTemp("", "verif-c03-w1-*")
		if err != nil {
			panic(err)
		}
		os.Remove(f.Name()) // the open descriptor is all that is needed
		w.w1file = f
		w1 = f
	}
	w2 := &closerW{plainW: plainW{"w2", w.rec}}
	w3 := &levelW{plainW{"w3", w.rec}}
	w.writers = []io.Writer{w1, w2, w3}
	w.names[w1], w.names[w2], w.names[w3] = "w1", "w2", "w3"
	so, se := slog.VerifStdFiles()
	w.names[so], w.names[se] = "stdout", "stderr"
	switch root {
	case 0, 3:
		w.l = slog.VerifEntryOf(slog.New("L", slog.WithLevel(slog.TraceLevel)))
	case 1:
		px := &plainW{"parentw", w.rec}
		p := slog.New("P").SetWriter(px).SetErrorWriter(px).AddLevelWriter(slog.InfoLevel, px)
		w.l = p.New("L", slog.WithLevel(slog.TraceLevel))
	case 2:
		w.l = slog.VerifEntryOf(slog.New("L", firstOpt.opt(w), slog.WithLevel(slog.TraceLevel)))
	}
	w.l.SetColorMode(false)
	w.soOff = fileSize(stdoutFile)
	w.seOff = fileSize(stderrFile)
	return w
}

func fileSize(p string) int64 {
	if p == "" {
		return 0
	}
	st, err := os.Stat(p)
	if err != nil {
		return 0
	}
	return st.Size()
}

func readFrom(p string, off int64) string {
	f, err := os.Open(p)
	if err != nil {
		return ""
	}
	defer f.Close()
	f.Seek(off, 0)
	b, _ := io.ReadAll(f)
	return string(b)
}

func (w *c03world) implCfg() (c03cfg, string) {
	inf := slog.VerifInfo(w.l)
	cfg := c03cfg{Leveled: map[string][]string{}}
	name := func(x io.Writer) string {
		if n, ok := w.names[x]; ok {
			return n
		}
		return fmt.Sprintf("?%T", x)
	}
	if !inf.HasWriter {
		return c03default(), "unconfigured"
	}
	for _, x := range inf.Normal {
		cfg.Normal = append(cfg.Normal, name(x))
	}
	for _, x := range inf.Error {
		cfg.Error = append(cfg.Error, name(x))
	}
	for k, v := range inf.Leveled {
		for _, x := range v {
			cfg.Leveled[levelName(k)] = append(cfg.Leveled[levelName(k)], name(x))
		}
	}
	if cfg.Normal == nil {
		cfg.Normal = []string{}
	}
	if cfg.Error == nil {
		cfg.Error = []string{}
	}
	return cfg, "configured"
}

type c03case struct {
	Root int      `json:"root"`
	Ops  []int    `json:"ops"`
	Text []string `json:"text,omitempty"`
}

var c03probes = []struct {
	name string
	lvl  slog.Level
	f    func(l *slog.Entry)
}{
	{"Info", slog.InfoLevel, func(l *slog.Entry) { l.Info("p-info") }},
	{"Debug", slog.DebugLevel, func(l *slog.Entry) { l.Debug("p-debug") }},
	{"Print", slog.AlwaysLevel, func(l *slog.Entry) { l.Print("p-print") }},
	{"OK", slog.OKLevel, func(l *slog.Entry) { l.OK("p-ok") }},
	{"Warn", slog.WarnLevel, func(l *slog.Entry) { l.Warn("p-warn") }},
	{"Error", slog.ErrorLevel, func(l *slog.Entry) { l.Error("p-error") }},
	{"Fail", slog.FailLevel, func(l *slog.Entry) { l.Fail("p-fail") }},
	{"swell72(error device)", c03Swell, func(l *slog.Entry) { l.LogAttrs(bg, c03Swell, "p-swell") }},
	{"notice18", c03Notice, func(l *slog.Entry) { l.LogAttrs(bg, c03Notice, "p-notice") }},
	{"late31 (error device, registered after the writers were configured)", c03Late, func(l *slog.Entry) {
		_ = slog.RegisterLevel(c03Late, "late31", slog.RegWithTreatedAsLevel(slog.ErrorLevel), slog.RegWithPrintToErrorDevice(true))
		l.LogAttrs(bg, c03Late, "p-late")
	}},
}

// c03reentV logs a Warn record through the logger it is given while the record it belongs to is being formatted.
type c03reentV struct{ l *slog.Entry }

func (v c03reentV) String() string { v.l.Warn("p-nested"); return "nested-done" }

func refSelect(m c03cfg, lvl slog.Level) []string {
	if v := m.Leveled[levelName(lvl)]; len(v) > 0 {
		return v
	}
	if refErrorClass(lvl, map[slog.Level]bool{c03Swell: true, c03Late: true}) {
		return m.Error
	}
	return m.Normal
}

// c03replay replays the history, checking op semantics at every step and the
// routing in the final state (probeAll: in every state).
func c03replay(ops []c03op, cas c03case, probeAll bool) (v *Violation, finalKey string, lenCap bool) {
	mkv := func(clause, sigTail, detail string, upto int) *Violation {
		cc := c03case{Root: cas.Root, Ops: cas.Ops[:upto]}
		for _, o := range cc.Ops {
			cc.Text = append(cc.Text, ops[o].name)
		}
		return mkViolation("C03|"+clause+"|"+sigTail, clause, detail+" [root: "+c03roots[cas.Root]+"; history: "+strings.Join(cc.Text, "; ")+"]", cc)
	}
	var w *c03world
	defer func() {
		if w != nil && w.w1file != nil {
			w.w1file.Close()
		}
	}()
	model := c03default()
	start := 0
	if cas.Root == 2 {
		if len(cas.Ops) == 0 || ops[cas.Ops[0]].opt == nil {
			return nil, "", false
		}
		first := &ops[cas.Ops[0]]
		pan := catch(func() { w = c03newWorld(2, first) })
		if pan != "" {
			return mkv("op-returns", "New(option "+first.name+")|panic", "New with option panicked: "+firstLine(pan), 1), "", false
		}
		acc := first.ref(w, model.clone())
		got, _ := w.implCfg()
		ok := false
		for _, a := range acc {
			if a.key() == got.key() {
				ok = true
			}
		}
		if !ok {
			return mkv("config-semantics", "New(option "+first.name+")", fmt.Sprintf("after New(..., %s) configuration is %s, reference %s", first.name, got.key(), acc[0].key()), 1), "", false
		}
		model = got
		start = 1
	} else {
		w = c03newWorld(cas.Root, nil)
	}
	probe := func(upto int) *Violation {
		for pi2 := 0; pi2 < 2*len(c03probes); pi2++ {
			p := c03probes[pi2/2] // each severity twice in a row: the second record of a severity must be told the severity again
			w.rec.reset()
			so0, se0 := fileSize(stdoutFile), fileSize(stderrFile)
			var f0 int64
			if w.w1file != nil {
				if st, err := w.w1file.Stat(); err == nil {
					f0 = st.Size()
				}
			}
			pan := catch(func() { p.f(w.l) })
			if pan != "" {
				return mkv("probe-returns", "severity="+p.name+"|panic", "probe panicked: "+firstLine(pan), upto)
			}
			sel := refSelect(model, p.lvl)
			want := map[string]int{}
			for _, n := range sel {
				want[n]++
			}
			got := map[string]int{}
			for _, e := range w.rec.events {
				if !strings.HasPrefix(e.Payload, "\x00") {
					got[e.W]++
				}
			}
			if so1 := fileSize(stdoutFile); so1 > so0 {
				got["stdout"] = strings.Count(readFrom(stdoutFile, so0), "\n")
			}
			if se1 := fileSize(stderrFile); se1 > se0 {
				got["stderr"] = strings.Count(readFrom(stderrFile, se0), "\n")
			}
			if w.w1file != nil {
				if st, err := w.w1file.Stat(); err == nil && st.Size() > f0 {
					buf := make([]byte, st.Size()-f0)
					_, _ = w.w1file.ReadAt(buf, f0)
					got["w1"] = strings.Count(string(buf), "\n")
				}
			}
			for _, n := range []string{"w1", "w2", "w3", "stdout", "stderr", "parentw"} {
				if got[n] != want[n] {
					dir := "missing"
					if got[n] > want[n] {
						dir = "unexpected"
					}
					return mkv("routing", fmt.Sprintf("severity=%s|writer=%s|%s|cfg=%s", p.name, n, dir, model.key()),
						fmt.Sprintf("configuration %s, probe %s: writer %s received %d record(s), reference selects it %d time(s) (selected list %v)", model.key(), p.name, n, got[n], want[n], sel), upto)
				}
			}
			// severity notification for w3: SetLevel(sev) immediately before each of its Writes
			var w3ev []string
			for _, e := range w.rec.events {
				if e.W == "w3" {
					if strings.HasPrefix(e.Payload, "\x00") {
						w3ev = append(w3ev, e.Payload[1:])
					} else {
						w3ev = append(w3ev, "Write")
					}
				}
			}
			var wantEv []string
			for i := 0; i < want["w3"]; i++ {
				wantEv = append(wantEv, fmt.Sprintf("SetLevel(%d)", int(p.lvl)), "Write")
			}
			// accept notifications issued in one batch before the writes as well
			if strings.Join(w3ev, ",") != strings.Join(wantEv, ",") {
				nset, nwr, okOrder := 0, 0, true
				for _, e := range w3ev {
					if e == "Write" {
						nwr++
						if nset == 0 {
							okOrder = false
						}
					} else if e == fmt.Sprintf("SetLevel(%d)", int(p.lvl)) {
						nset++
						if nwr > 0 && nset <= nwr {
							okOrder = false
						}
					} else {
						okOrder = false
					}
				}
				if !(okOrder && nwr == want["w3"] && (nwr == 0 && nset == 0 || nset >= 1)) {
					return mkv("severity-notification", fmt.Sprintf("severity=%s|got=%s", p.name, strings.Join(w3ev, ",")),
						fmt.Sprintf("configuration %s, probe %s: level-settable writer w3 saw [%s], expected [%s]", model.key(), p.name, strings.Join(w3ev, ","), strings.Join(wantEv, ",")), upto)
				}
			}
		}
		// a record whose value logs another record, at a severity of the other class, through the same logger while it is
		// formatted: every Write of the level-settable writer is still preceded by the severity of the record it is handed
		w.rec.reset()
		if pan := catch(func() { w.l.Info("p-reent", "v", c03reentV{w.l}) }); pan != "" {
			return mkv("probe-returns", "severity=Info with a value that logs a Warn|panic", "probe panicked: "+firstLine(pan), upto)
		}
		for name, lvl := range map[string]slog.Level{"p-reent": slog.InfoLevel, "p-nested": slog.WarnLevel} {
			want := map[string]int{}
			for _, n := range refSelect(model, lvl) {
				want[n]++
			}
			for _, n := range []string{"w2", "w3", "parentw"} {
				got := 0
				for _, e := range w.rec.events {
					if e.W == n && strings.Contains(e.Payload, name) {
						got++
					}
				}
				if got != want[n] {
					return mkv("routing", fmt.Sprintf("record-with-nested-record|%s|writer=%s|cfg=%s", name, n, model.key()),
						fmt.Sprintf("configuration %s, an Info record whose value logs a Warn record through the same logger: writer %s received the %s record %d time(s), reference %d", model.key(), n, levelName(lvl), got, want[n]), upto)
				}
			}
		}
		last := ""
		for _, e := range w.rec.events {
			if e.W != "w3" {
				continue
			}
			if strings.HasPrefix(e.Payload, "\x00") {
				last = e.Payload[1:]
				continue
			}
			wantSet := fmt.Sprintf("SetLevel(%d)", int(slog.InfoLevel))
			if strings.Contains(e.Payload, "p-nested") {
				wantSet = fmt.Sprintf("SetLevel(%d)", int(slog.WarnLevel))
			}
			// (several occurrences of w3 in one list: the notifications may come in one batch; the last one before the Write counts)
			if last != wantSet {
				return mkv("severity-notification", "record-with-nested-record|cfg="+model.key(),
					fmt.Sprintf("configuration %s, an Info record whose value logs a Warn record through the same logger: the level-settable writer w3 was last told %q before it was handed %.60q, expected %s", model.key(), last, e.Payload, wantSet), upto)
			}
		}
		return nil
	}
	if probeAll || len(cas.Ops) == start {
		if v := probe(start); v != nil {
			return v, "", false
		}
	}
	for i := start; i < len(cas.Ops); i++ {
		op := &ops[cas.Ops[i]]
		acc := op.ref(w, model.clone())
		pan := catch(func() { op.f(w) })
		if pan != "" {
			return mkv("op-returns", op.name+"|panic", op.name+" panicked: "+firstLine(pan), i+1), "", false
		}
		got, _ := w.implCfg()
		ok := false
		for _, a := range acc {
			if a.key() == got.key() {
				ok = true
			}
		}
		if !ok {
			return mkv("config-semantics", op.name+"|from="+model.key(), fmt.Sprintf("%s on %s gives %s, reference %s", op.name, model.key(), got.key(), acc[0].key()), i+1), "", false
		}
		model = got
		if probeAll || i == len(cas.Ops)-1 {
			if v := probe(i + 1); v != nil {
				return v, "", false
			}
		}
	}
	tooLong := len(model.Normal) > 3 || len(model.Error) > 3
	for _, v := range model.Leveled {
		if len(v) > 2 {
			tooLong = true
		}
	}
	return nil, model.key(), tooLong
}

func init() {
	register(&CheckDef{ID: "C03", Run: c03run, Replay: func(raw json.RawMessage) *Violation {
		var cas c03case
		if json.Unmarshal(raw, &cas) != nil {
			return nil
		}
		v, _, _ := c03replay(c03ops(), cas, true)
		return v
	}})
}

func c03run(c *Ctx) {
	ops := c03ops()
	maxDepth := 3
	if c.Thorough() {
		maxDepth = 4
	}
	c.Flag("exhaustive", true)
	c.Info("ops", len(ops))
	c.Info("probes_per_state", len(c03probes))
	seen := map[string]bool{}
	var frontier []c03case
	for _, root := range []int{0, 1, 3} {
		cas := c03case{Root: root}
		v, k, _ := c03replay(ops, cas, false)
		c.Count("transitions", 1)
		if v != nil {
			c.Violate(v)
			continue
		}
		seen[fmt.Sprint(root, k)] = true
		c.Count("states", 1)
		frontier = append(frontier, cas)
	}
	// option roots: depth-1 nodes
	depthDone := 0
	capped := int64(0)
	for depth := 1; depth <= maxDepth; depth++ {
		var next []c03case
		if depth == 1 {
			for oi := range ops {
				if ops[oi].opt == nil || !c.Mine(oi) {
					continue
				}
				cas := c03case{Root: 2, Ops: []int{oi}}
				v, k, _ := c03replay(ops, cas, false)
				c.Count("transitions", 1)
				if v != nil {
					c.Violate(v)
					continue
				}
				c.Outcome(k)
				if !seen[fmt.Sprint(2, k)] {
					seen[fmt.Sprint(2, k)] = true
					c.Count("states", 1)
					next = append(next, cas)
				}
			}
		}
		for _, h := range frontier {
			for oi := range ops {
				if depth == 1 && !c.Mine(oi) {
					continue
				}
				cas := c03case{Root: h.Root, Ops: append(append([]int{}, h.Ops...), oi)}
				v, k, tooLong := c03replay(ops, cas, true)
				c.Count("transitions", 1)
				if v != nil {
					c.Violate(v)
					continue
				}
				if tooLong {
					capped++
					continue
				}
				c.Outcome(k)
				key := fmt.Sprint(h.Root, k)
				if seen[key] {
					continue
				}
				seen[key] = true
				c.Count("states", 1)
				next = append(next, cas)
			}
			if c.Expired() {
				break
			}
		}
		if c.Expired() {
			break
		}
		depthDone = depth
		frontier = next
		if len(next) == 0 {
			c.Flag("fixpoint", true)
			break
		}
		if depth == 2 && len(next) > 0 {
			x := next[len(next)/3]
			var t []string
			for _, o := range x.Ops {
				t = append(t, ops[o].name)
			}
			c.Sample(map[string]any{"root": c03roots[x.Root], "history": t})
		}
	}
	c.Count("successors_not_expanded_list_cap", capped)
	c.Max("depth_completed", int64(depthDone))
	c.Assume("where a writer occurs more than once in a list, 'remove' may delete any one occurrence or all of them")
	c.Assume("writer lists are capped at length 3 (per-level lists at 2): longer configurations are checked but not expanded")
}
