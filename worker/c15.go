package main

// C15 - log/slog handler and std log bridge preserve content, severity and
// gating. Shape I in layers (+ H for derivation chains).

import (
	"bufio"
	"context"
	"encoding/json"
	"errors"
	"fmt"
	logslog "log/slog"
	"math"
	"sort"
	"strconv"
	"strings"
	"time"

	"github.com/hedzr/logg/slog"

	"verif/oracle/jsonx"
	"verif/oracle/logfmt"
)

type c15case struct {
	Layer    string   `json:"layer"`
	Format   string   `json:"format"`              // json | logfmt | color
	NoSource bool     `json:"no_source,omitempty"` // handler option
	OptLevel int      `json:"opt_level,omitempty"` // handler option Level (0 = unset)
	LogLevel int      `json:"logger_level"`        // level of the underlying logger before NewSlogHandler
	SlogLvl  int      `json:"slog_level"`          // log/slog level of the record
	Attr     string   `json:"attr,omitempty"`      // name of the attribute case
	Chain    []string `json:"chain,omitempty"`     // derivation chain
	Via      string   `json:"via"`                 // Logger | Handle | EntryLog | Enabled | Bridge
	BridgeLv int      `json:"bridge_level,omitempty"`
	MsgQ     string   `json:"msg,omitempty"`
	Debug    bool     `json:"debug_mode,omitempty"`
	Reg      bool     `json:"customs_registered,omitempty"` // custom levels treated as Error/Warn/Info/Debug are registered first
	TimeCfg  string   `json:"time_cfg,omitempty"`           // time settings of the logger behind the handler: utc | local | layout-utc (each disagrees with the local-time flag)
	RecYear  int      `json:"record_year,omitempty"`        // Handle: the record's own time lies in this year (0 = the usual instant of 2021)
	Ctx      string   `json:"ctx,omitempty"`                // the context handed to the handler / logger: "" Background | cancelled | deadline-exceeded | with-values (it never matters by the statement)
	WriterOp string   `json:"writer_op,omitempty"`          // L4x: what is done to the writers of the logger behind the handler after the derivation
	Level2   int      `json:"level2,omitempty"`             // L4c: level of the logger at the time of the second derivation
	Format2  string   `json:"format2,omitempty"`            // L4c: format of the logger at the time of the second derivation
}

// reentFn is a Stringer that does something (logs) before it returns its text.
type reentFn struct {
	f func()
	s string
}

func (r reentFn) String() string { r.f(); return r.s }

// lvPanics is a LogValuer whose LogValue panics (log/slog's Value.Resolve turns that into an error value).
type lvPanics struct{}

func (lvPanics) LogValue() logslog.Value { panic("LogValue panicked") }

type lvValuer struct{ v logslog.Value }

func (l lvValuer) LogValue() logslog.Value { return l.v }

type c15attr struct {
	name string
	mk   func() logslog.Attr
	// check: decoded JSON value of member "k" (or nested) preserves the value
	json func(v any) string
}

func c15attrs() []c15attr {
	g3 := func() logslog.Attr {
		return logslog.Group("k", logslog.Int("a", 1), logslog.Group("h", logslog.String("b", "x"), logslog.Group("i", logslog.Bool("c", true))))
	}
	g3json := func(v any) string {
		o, ok := v.(*jsonx.Obj)
		if !ok {
			return fmt.Sprintf("group is not an object: %v", v)
		}
		a, _ := o.Get("a")
		if r := jsonIntIs(a, 1); r != "" {
			return "k.a: " + r
		}
		h, _ := o.Get("h")
		ho, ok := h.(*jsonx.Obj)
		if !ok {
			return "k.h is not an object"
		}
		b, _ := ho.Get("b")
		if r := jsonStringIs(b, "x"); r != "" {
			return "k.h.b: " + r
		}
		i, _ := ho.Get("i")
		io, ok := i.(*jsonx.Obj)
		if !ok {
			return "k.h.i is not an object"
		}
		cc, _ := io.Get("c")
		if bv, ok := cc.(bool); !ok || !bv {
			return "k.h.i.c not preserved"
		}
		return ""
	}
	return []c15attr{
		{"Bool", func() logslog.Attr { return logslog.Bool("k", true) }, func(v any) string {
			if b, ok := v.(bool); ok && b {
				return ""
			}
			return fmt.Sprintf("bool not preserved: %v", v)
		}},
		{"Duration", func() logslog.Attr { return logslog.Duration("k", 1500*time.Millisecond) }, func(v any) string {
			t, ok := jsonNumText(v)
			if !ok {
				return "duration is neither string nor number"
			}
			return durTextIs(t, 1500*time.Millisecond)
		}},
		{"Float64", func() logslog.Attr { return logslog.Float64("k", 2.5) }, func(v any) string { return jsonFloatIs(v, 2.5) }},
		{"Float64 NaN", func() logslog.Attr { return logslog.Float64("k", math.NaN()) }, func(v any) string { return jsonFloatIs(v, math.NaN()) }},
		{"Int64 min", func() logslog.Attr { return logslog.Int64("k", math.MinInt64) }, func(v any) string { return jsonIntIs(v, math.MinInt64) }},
		{"Int", func() logslog.Attr { return logslog.Int("k", -7) }, func(v any) string { return jsonIntIs(v, -7) }},
		{"String nasty", func() logslog.Attr { return logslog.String("k", "a \"b\"\n\x1b[0m") }, func(v any) string { return jsonStringIs(v, "a \"b\"\n\x1b[0m") }},
		{"Time", func() logslog.Attr { return logslog.Time("k", tsZone) }, func(v any) string {
			s, ok := v.(string)
			if !ok {
				return "time is not a string"
			}
			return timeTextIs(s, tsZone)
		}},
		{"Uint64 max", func() logslog.Attr { return logslog.Uint64("k", math.MaxUint64) }, func(v any) string { return jsonUintIs(v, math.MaxUint64) }},
		{"Group nested 3", g3, g3json},
		{"Group wide", func() logslog.Attr {
			return logslog.Group("k", logslog.Int("a", 1), logslog.String("b", "x"), logslog.Bool("c", true), logslog.Any("d", lvValuer{logslog.IntValue(9)}))
		}, func(v any) string {
			o, ok := v.(*jsonx.Obj)
			if !ok {
				return fmt.Sprintf("group is not an object: %v", v)
			}
			a, _ := o.Get("a")
			if r := jsonIntIs(a, 1); r != "" {
				return "k.a: " + r
			}
			b, _ := o.Get("b")
			if r := jsonStringIs(b, "x"); r != "" {
				return "k.b: " + r
			}
			d, _ := o.Get("d")
			if r := jsonIntIs(d, 9); r != "" {
				return "k.d (LogValuer inside a group): " + r
			}
			return ""
		}},
		{"Group empty", func() logslog.Attr { return logslog.Group("k") }, func(v any) string {
			if v == nil {
				return "" // may be omitted
			}
			if o, ok := v.(*jsonx.Obj); ok && len(o.Keys) == 0 {
				return ""
			}
			return fmt.Sprintf("empty group rendered as %v", v)
		}},
		{"LogValuer->Int", func() logslog.Attr { return logslog.Any("k", lvValuer{logslog.IntValue(42)}) }, func(v any) string { return jsonIntIs(v, 42) }},
		{"LogValuer->String", func() logslog.Attr { return logslog.Any("k", lvValuer{logslog.StringValue("lv")}) }, func(v any) string { return jsonStringIs(v, "lv") }},
		{"LogValuer->Group", func() logslog.Attr {
			return logslog.Any("k", lvValuer{logslog.GroupValue(logslog.Int("a", 1), logslog.Group("h", logslog.String("b", "x"), logslog.Group("i", logslog.Bool("c", true))))})
		}, g3json},
		{"LogValuer->LogValuer->Bool", func() logslog.Attr {
			return logslog.Any("k", lvValuer{logslog.AnyValue(lvValuer{logslog.BoolValue(true)})})
		}, func(v any) string {
			if b, ok := v.(bool); ok && b {
				return ""
			}
			return fmt.Sprintf("nested LogValuer not resolved: %v", v)
		}},
		{"LogValuer that panics", func() logslog.Attr { return logslog.Any("k", lvPanics{}) }, func(v any) string {
			if v == nil {
				return "the attribute whose LogValue panicked is missing (log/slog resolves it to an error value)"
			}
			return ""
		}},
		{"Any error", func() logslog.Attr { return logslog.Any("k", errors.New("boom")) }, func(v any) string {
			switch z := v.(type) {
			case string:
				return jsonStringIs(z, "boom")
			case *jsonx.Obj:
				m, _ := z.Get("message")
				return jsonStringIs(m, "boom")
			}
			return "error not preserved"
		}},
		{"Any struct", func() logslog.Attr { return logslog.Any("k", structV{1, "x"}) }, func(v any) string {
			if v == nil {
				return "struct value missing"
			}
			return ""
		}},
		{"Any nil", func() logslog.Attr { return logslog.Any("k", nil) }, func(v any) string {
			if v == nil {
				return ""
			}
			if s, ok := v.(string); ok && (s == "<nil>" || s == "nil") {
				return ""
			}
			return fmt.Sprintf("nil rendered as %v", v)
		}},
	}
}

var c15standard = map[int]slog.Level{int(logslog.LevelDebug): slog.DebugLevel, int(logslog.LevelInfo): slog.InfoLevel, int(logslog.LevelWarn): slog.WarnLevel, int(logslog.LevelError): slog.ErrorLevel}

type c15world struct {
	rec *recorder
	l   slog.Logger
	h   logslog.Handler
}

func c15new(cas c15case) *c15world {
	caseSeq++
	resetAlt(caseSeq)
	fl := slog.LstdFlags | slog.LnoInterrupt
	if cas.TimeCfg == "local" {
		fl &^= slog.LlocalTime // the flag says UTC, the logger says local
	}
	setFlagsVia(fl, caseSeq/2)
	if cas.Reg {
		for i, as := range []slog.Level{slog.ErrorLevel, slog.WarnLevel, slog.InfoLevel, slog.DebugLevel} {
			_ = slog.RegisterLevel(slog.Level(50+i), fmt.Sprintf("C15AUDIT%d", i), slog.RegWithTreatedAsLevel(as))
		}
	}
	w := &c15world{rec: &recorder{}}
	wr := &plainW{"under", w.rec}
	w.l = slog.New("under").SetWriter(wr).SetErrorWriter(wr)
	w.l.SetLevel(slog.Level(cas.LogLevel))
	slog.VerifRestoreModes(cas.Debug, false)
	switch cas.TimeCfg {
	case "utc":
		w.l.SetUTCMode(true)
	case "local":
		w.l.SetUTCMode(false)
	case "layout-utc":
		w.l.SetTimeFormat(time.RFC1123Z).SetUTCMode(true)
	}
	if cas.Via != "EntryLog" && cas.Via != "Bridge" {
		w.h = slog.NewSlogHandler(w.l, &slog.HandlerOptions{NoColor: cas.Format != "color", JSON: cas.Format == "json", NoSource: cas.NoSource, Level: slog.Level(cas.OptLevel)})
		slog.VerifRestoreModes(cas.Debug, false)
	} else {
		switch cas.Format {
		case "json":
			w.l.SetJSONMode(true)
		case "logfmt":
			w.l.SetColorMode(false)
		default:
			w.l.SetColorMode(true)
		}
	}
	return w
}

type c15rec struct {
	level string
	msg   string
	time  string
	attrs map[string]any // JSON: decoded members; logfmt: dotted key -> string
	keys  []string
	fmt   string
}

func c15decode(p, format string) (*c15rec, string) {
	r := &c15rec{attrs: map[string]any{}, fmt: classifyRecord(p)}
	switch format {
	case "json":
		obj, err := jsonx.DecodeLine([]byte(p))
		if err != nil {
			return nil, err.Error()
		}
		for i, k := range obj.Keys {
			switch k {
			case "level":
				r.level, _ = obj.Vals[i].(string)
			case "msg":
				r.msg, _ = obj.Vals[i].(string)
			case "time":
				r.time, _ = obj.Vals[i].(string)
			case "logger", "caller":
			default:
				r.attrs[k] = obj.Vals[i]
				r.keys = append(r.keys, k)
			}
		}
	case "logfmt":
		pairs, err := logfmt.ParseLine([]byte(p))
		if err != nil {
			return nil, err.Error()
		}
		for _, pr := range pairs {
			switch pr.Key {
			case "level":
				r.level = pr.Val
			case "msg":
				r.msg = pr.Val
			case "time":
				r.time = pr.Val
			case "logger", "caller.file", "caller.line", "caller.function":
			default:
				r.attrs[pr.Key] = pr.Val
				r.keys = append(r.keys, pr.Key)
			}
		}
	default:
		text := slog.StripEscapes(p)
		i := strings.Index(text, "| ")
		j := strings.Index(text, "] ")
		if i < 0 || j < 0 {
			return nil, "unexpected colored layout"
		}
		r.time = text[:i]
		tagStart := strings.LastIndex(text[:j], "[")
		r.level = text[tagStart+1 : j]
		rest := text[j+2:]
		r.msg = strings.TrimRight(strings.SplitN(rest, "  ", 2)[0], " \n")
		for _, tok := range strings.Fields(rest) {
			if eq := strings.IndexByte(tok, '='); eq > 0 {
				r.attrs[tok[:eq]] = tok[eq+1:]
				r.keys = append(r.keys, tok[:eq])
			}
		}
	}
	return r, ""
}

func c15levelMatches(format string, got string, want slog.Level) bool {
	if format == "color" {
		return got == want.ShortTag(3)
	}
	return got == want.String()
}

func c15eval(cas c15case) *Violation {
	mk := func(clause, detail string) *Violation {
		sig := fmt.Sprintf("C15|%s|%s|via=%s|format=%s|slog_level=%d|logger_level=%s|attr=%s|chain=%v|opt_level=%d|bridge=%d|msg=%s|reg=%v|format2=%s|level2=%d|time=%s", clause, cas.Layer, cas.Via, cas.Format, cas.SlogLvl, levelName(slog.Level(cas.LogLevel)), cas.Attr, cas.Chain, cas.OptLevel, cas.BridgeLv, cas.MsgQ, cas.Reg, cas.Format2, cas.Level2, cas.TimeCfg)
		if cas.Ctx != "" {
			sig += "|ctx=" + cas.Ctx
			detail += " [context: " + cas.Ctx + "]"
		}
		return mkViolation(sig, clause, detail, cas)
	}
	w := c15new(cas)
	ctx := context.Background()
	switch cas.Ctx {
	case "cancelled":
		c2, cancel := context.WithCancel(ctx)
		cancel()
		ctx = c2
	case "deadline-exceeded":
		c2, cancel := context.WithDeadline(ctx, time.Unix(1, 0))
		defer cancel()
		ctx = c2
	case "with-values":
		ctx = context.WithValue(context.WithValue(ctx, "request_id", "r-1"), c15ctxKey{}, 7)
	}
	msg := "the message"
	if cas.MsgQ != "" {
		msg, _ = strconv.Unquote(cas.MsgQ)
	}
	var at *c15attr
	if cas.Attr != "" {
		for _, a := range c15attrs() {
			if a.name == cas.Attr {
				a := a
				at = &a
			}
		}
	}
	// effective level of the underlying logger after NewSlogHandler
	effLevel := slog.Level(cas.LogLevel)
	if cas.Via != "EntryLog" && cas.Via != "Bridge" && slog.Level(cas.OptLevel) != slog.PanicLevel {
		effLevel = slog.Level(cas.OptLevel)
	}
	switch cas.Via {
	case "Enabled":
		ns, ok := c15standard[cas.SlogLvl]
		if !ok {
			return nil
		}
		got := w.h.Enabled(ctx, logslog.Level(cas.SlogLvl))
		under := w.l.Enabled(ns)
		ref, fixed := refAdmit(effLevel, ns, cas.Debug, nil)
		if got != under {
			return mk("enabled-equals-underlying", fmt.Sprintf("Handler.Enabled(%d)=%v but the underlying logger's Enabled(%s)=%v", cas.SlogLvl, got, levelName(ns), under))
		}
		if fixed && got != ref {
			return mk("enabled-equals-reference", fmt.Sprintf("Handler.Enabled(%d)=%v, reference admission of %s on a %s logger is %v", cas.SlogLvl, got, levelName(ns), levelName(effLevel), ref))
		}
		if int(w.l.Level()) != int(effLevel) {
			return mk("option-level", fmt.Sprintf("underlying logger level is %s, expected %s", levelName(w.l.Level()), levelName(effLevel)))
		}
		// the same handler is asked again after the process-wide debug mode changed (it is switched by SetLevel(Debug) on ANY logger)
		slog.VerifRestoreModes(!cas.Debug, false)
		got2 := w.h.Enabled(ctx, logslog.Level(cas.SlogLvl))
		under2 := w.l.Enabled(ns)
		ref2, fixed2 := refAdmit(effLevel, ns, !cas.Debug, nil)
		slog.VerifRestoreModes(cas.Debug, false)
		if got2 != under2 || fixed2 && got2 != ref2 {
			return mk("enabled-after-debug-mode-change", fmt.Sprintf("after debug mode became %v: Handler.Enabled(%d)=%v, underlying logger %v, reference %v", !cas.Debug, cas.SlogLvl, got2, under2, ref2))
		}
		return nil
	case "EntryLog":
		pan := catch(func() { w.l.Log(ctx, logslog.Level(cas.SlogLvl), msg, "k", 1) })
		if pan != "" {
			return mk("call-returns", firstLine(pan))
		}
		var want slog.Level
		ns, std := c15standard[cas.SlogLvl]
		switch {
		case std:
			want = ns
		case cas.SlogLvl == 16:
			want = slog.FatalLevel
		case cas.SlogLvl == 17:
			want = slog.PanicLevel
		}
		if len(w.rec.events) > 1 {
			return mk("at-most-once", fmt.Sprintf("%d records", len(w.rec.events)))
		}
		if std || cas.SlogLvl >= 16 && cas.SlogLvl <= 17 {
			adm, fixed := refAdmit(effLevel, want, cas.Debug, nil)
			if fixed && adm != (len(w.rec.events) == 1) {
				return mk("gating", fmt.Sprintf("Log(%d) on a %s logger: reference admits=%v, written=%v", cas.SlogLvl, levelName(effLevel), adm, len(w.rec.events) == 1))
			}
		}
		if len(w.rec.events) == 1 {
			r, e := c15decode(w.rec.events[0].Payload, cas.Format)
			if e != "" {
				return mk("decodable", e)
			}
			if std || cas.SlogLvl >= 16 && cas.SlogLvl <= 17 {
				if !c15levelMatches(cas.Format, r.level, want) {
					return mk("namesake-level", fmt.Sprintf("Log(%d) produced a %q record, expected %s", cas.SlogLvl, r.level, levelName(want)))
				}
			} else if c15levelMatches(cas.Format, r.level, slog.FatalLevel) || c15levelMatches(cas.Format, r.level, slog.PanicLevel) {
				return mk("no-terminating-severity", fmt.Sprintf("Log(%d) produced a terminating %q record", cas.SlogLvl, r.level))
			}
		}
		return nil
	case "Bridge":
		if cas.Layer == "L5c-bridge-behind-bufio" || cas.Layer == "L5d-bridge-writer-was-a-destination-first" {
			std := slog.NewLogLogger(w.l, slog.Level(cas.BridgeLv))
			adm, fixed := refAdmit(effLevel, slog.Level(cas.BridgeLv), cas.Debug, nil)
			if !fixed {
				return nil
			}
			want := 0
			var pan string
			if cas.Layer == "L5c-bridge-behind-bufio" {
				// something from bufio sits between the log.Logger and the bridge's writer: three messages, then Flush
				bw := bufio.NewWriter(std.Writer())
				std.SetOutput(bw)
				pan = catch(func() {
					for _, m := range []string{"one", "two", "three"} {
						std.Print(m)
						_ = bw.Flush()
					}
				})
				if adm {
					want = 3
				}
			} else {
				// the bridge's writer is first used as the destination of ANOTHER logger (records of other severities go
				// through it), then the bridge itself prints: its severity is still the one it was built with
				other := slog.New("other").SetWriter(std.Writer()).SetErrorWriter(std.Writer()).SetLevel(slog.AlwaysLevel).SetColorMode(false)
				pan = catch(func() {
					other.Error("from the other logger")
					other.Debug("from the other logger")
				})
				w.rec.reset()
				pan += catch(func() { std.Print("direct") })
				if adm {
					want = 1
				}
			}
			if pan != "" {
				return mk("call-returns", firstLine(pan))
			}
			if len(w.rec.events) != want {
				return mk("bridge-gating", fmt.Sprintf("bridge severity %s on a %s logger: %d records written, expected %d", levelName(slog.Level(cas.BridgeLv)), levelName(effLevel), len(w.rec.events), want))
			}
			for _, e := range w.rec.events {
				r, er := c15decode(e.Payload, cas.Format)
				if er != "" {
					return mk("decodable", er)
				}
				if !c15levelMatches(cas.Format, r.level, slog.Level(cas.BridgeLv)) {
					return mk("bridge-severity", fmt.Sprintf("record level %q, bridge severity %s", r.level, levelName(slog.Level(cas.BridgeLv))))
				}
			}
			return nil
		}
		if cas.Layer == "L5b-bridge-then-setlevel" {
			// the bridge is built while the logger has another level; admission must follow the level at the time of the call
			w.l.SetLevel(slog.Level(cas.OptLevel))
			slog.VerifRestoreModes(cas.Debug, false)
		}
		std := slog.NewLogLogger(w.l, slog.Level(cas.BridgeLv))
		if cas.Layer == "L5b-bridge-then-setlevel" {
			w.l.SetLevel(slog.Level(cas.LogLevel))
			slog.VerifRestoreModes(cas.Debug, false)
		}
		var n int
		var err error
		pan := catch(func() { err = std.Output(1, msg) })
		_ = n
		if pan != "" {
			return mk("call-returns", firstLine(pan))
		}
		if err != nil {
			return mk("bridge-write", fmt.Sprintf("Output returned %v", err))
		}
		adm, fixed := refAdmit(effLevel, slog.Level(cas.BridgeLv), cas.Debug, nil)
		if !fixed {
			return nil
		}
		if adm != (len(w.rec.events) == 1) {
			return mk("bridge-gating", fmt.Sprintf("bridge severity %s on a %s logger: reference admits=%v, records written=%d", levelName(slog.Level(cas.BridgeLv)), levelName(effLevel), adm, len(w.rec.events)))
		}
		if !adm {
			return nil
		}
		if slog.Level(cas.BridgeLv) == slog.AlwaysLevel && strings.Trim(msg, "\n\r \t") == "" {
			return nil // blank Print rule (C02)
		}
		r, e := c15decode(w.rec.events[0].Payload, cas.Format)
		if e != "" {
			return mk("decodable", e)
		}
		if !c15levelMatches(cas.Format, r.level, slog.Level(cas.BridgeLv)) {
			return mk("bridge-severity", fmt.Sprintf("record level %q, bridge severity %s", r.level, levelName(slog.Level(cas.BridgeLv))))
		}
		// std log appends a newline if missing; the bridge removes exactly one trailing newline
		want := msg
		if !strings.HasSuffix(want, "\n") {
			want += "\n"
		}
		want = want[:len(want)-1]
		if cas.Format != "color" && r.msg != want {
			return mk("bridge-message", fmt.Sprintf("record message %q, expected %q", r.msg, want))
		}
		return nil
	}
	// ---- Logger / Handle through the adapter
	h := w.h
	var wantAttrs []string // keys that must be present
	chain := cas.Chain
	if cas.Layer == "L4c-rederive" && len(chain) > 0 {
		chain = chain[:len(chain)-1] // the last derivation is the one that is repeated
	}
	for _, c := range chain {
		switch c {
		case "WithAttrs(a)":
			h = h.WithAttrs([]logslog.Attr{logslog.Int("wa", 11)})
			wantAttrs = append(wantAttrs, "wa")
		case "WithAttrs(b)":
			h = h.WithAttrs([]logslog.Attr{logslog.String("wb", "bee"), logslog.Bool("wc", true)})
			wantAttrs = append(wantAttrs, "wb", "wc")
		case "WithGroup(g)":
			h = h.WithGroup("g")
		}
	}
	if cas.Layer == "L4c-rederive" {
		// derive; reconfigure the logger behind the handler; derive again with the SAME arguments from the
		// SAME parent: the second handler keeps the level, format and destination its parent has at that time
		last := "WithGroup(g)"
		if len(cas.Chain) > 0 {
			last = cas.Chain[len(cas.Chain)-1]
		}
		derive := func() logslog.Handler {
			if last == "WithGroup(g)" {
				return h.WithGroup("g")
			}
			return h.WithAttrs([]logslog.Attr{logslog.Int("wa", 11)})
		}
		first := derive()
		_ = first
		// the logger behind the parent handler (the handler type embeds it)
		under, ok := h.(interface {
			SetLevel(slog.Level) *slog.Entry
			SetJSONMode(...bool) *slog.Entry
			SetColorMode(...bool) *slog.Entry
		})
		if !ok {
			c15unreachable++ // reported in the evidence; not a violation
			return nil
		}
		under.SetLevel(slog.Level(cas.Level2))
		slog.VerifRestoreModes(cas.Debug, false)
		switch cas.Format2 {
		case "json":
			under.SetJSONMode(true)
		case "logfmt":
			under.SetJSONMode(false)
			under.SetColorMode(false)
		case "color":
			under.SetJSONMode(false)
			under.SetColorMode(true)
		}
		second := derive()
		ns, std := c15standard[cas.SlogLvl]
		if !std {
			return nil
		}
		if pan := catch(func() { logslog.New(second).LogAttrs(ctx, logslog.Level(cas.SlogLvl), msg, logslog.Int("own", 5)) }); pan != "" {
			return mk("call-returns", firstLine(pan))
		}
		adm, fixed := refAdmit(slog.Level(cas.Level2), ns, cas.Debug, nil)
		if fixed && adm != (len(w.rec.events) == 1) {
			return mk("rederived-keeps-level", fmt.Sprintf("handler derived after the logger was set to %s: log/slog level %d, reference admits=%v, records written=%d", levelName(slog.Level(cas.Level2)), cas.SlogLvl, adm, len(w.rec.events)))
		}
		if len(w.rec.events) == 1 {
			if got := classifyRecord(w.rec.events[0].Payload); got != cas.Format2 {
				return mk("rederived-keeps-format", fmt.Sprintf("handler derived after the logger was switched to %s writes %s records: %.150q", cas.Format2, got, w.rec.events[0].Payload))
			}
			c15last = w.rec.events[0].Payload
		}
		return nil
	}
	if cas.Layer == "L2c-many-attrs-with-duplicate" {
		// a derived handler with six bound attributes handles a record with eight of its own; one key is in
		// both: fourteen attributes in all, every key once, and for the shared key the record's own value
		hd := w.h.WithAttrs([]logslog.Attr{logslog.Int("b1", 1), logslog.Int("b2", 2), logslog.String("dup", "bound"), logslog.Int("b3", 3), logslog.Int("b4", 4), logslog.Int("b5", 5)})
		rec := logslog.NewRecord(tsZone, logslog.LevelWarn, msg, 0)
		rec.AddAttrs(logslog.Int("r7", 7), logslog.Int("r6", 6), logslog.Int("r5", 5), logslog.String("dup", "record"), logslog.Int("r4", 4), logslog.Int("r3", 3), logslog.Int("r2", 2), logslog.Int("r1", 1))
		if pan := catch(func() { _ = hd.Handle(ctx, rec) }); pan != "" {
			return mk("call-returns", firstLine(pan))
		}
		if len(w.rec.events) != 1 {
			return mk("emitted-once", fmt.Sprintf("%d records", len(w.rec.events)))
		}
		r, e := c15decode(w.rec.events[0].Payload, cas.Format)
		if e != "" {
			return mk("decodable", e)
		}
		if len(r.keys) != 13 {
			return mk("record-attrs", fmt.Sprintf("%d attributes in the record, 13 expected (6 bound + 8 own, one key shared): %.300q", len(r.keys), w.rec.events[0].Payload))
		}
		if got := fmt.Sprint(r.attrs["dup"]); got != "record" && got != `"record"` {
			return mk("record-attrs", fmt.Sprintf("the key given both to WithAttrs and to the record carries %v, not the record's own value: %.300q", r.attrs["dup"], w.rec.events[0].Payload))
		}
		c15last = w.rec.events[0].Payload
		return nil
	}
	if cas.Layer == "L2b-empty-attr-between" {
		// an empty log/slog Attr (ignored by log/slog handlers) between other attributes: everything after it must still arrive
		rec := logslog.NewRecord(tsZone, logslog.LevelWarn, msg, 0)
		rec.AddAttrs(logslog.String("method", "GET"), logslog.Attr{}, logslog.Int("status", 200), logslog.Group("", logslog.Int("inl", 1)), logslog.Attr{}, logslog.Bool("z", true))
		if pan := catch(func() { _ = h.Handle(ctx, rec) }); pan != "" {
			return mk("call-returns", firstLine(pan))
		}
		if len(w.rec.events) != 1 {
			return mk("emitted-once", fmt.Sprintf("%d records", len(w.rec.events)))
		}
		// (how the empty attribute itself is rendered is not stated - in logfmt its empty key is outside C05's
		// domain - so only the presence of the others is judged, on the text)
		text := slog.StripEscapes(w.rec.events[0].Payload)
		for _, k := range []string{"method", "status", "z"} {
			if !strings.Contains(text, k+"=") && !strings.Contains(text, `"`+k+`":`) {
				return mk("record-attrs", fmt.Sprintf("attribute %q (after an empty Attr) is missing: %.250q", k, w.rec.events[0].Payload))
			}
		}
		c15last = w.rec.events[0].Payload
		return nil
	}
	if cas.Layer == "L4w-level-writer" {
		// the logger behind the handler sends Warn records to a per-level writer: so must every derived handler
		lw := &plainW{"level-writer", w.rec}
		w.l.AddLevelWriter(slog.WarnLevel, lw)
		hh := w.h
		for _, c := range cas.Chain {
			switch c {
			case "WithAttrs(a)":
				hh = hh.WithAttrs([]logslog.Attr{logslog.Int("wa", 11)})
			case "WithAttrs(b)":
				hh = hh.WithAttrs([]logslog.Attr{logslog.String("wb", "bee"), logslog.Bool("wc", true)})
			case "WithGroup(g)":
				hh = hh.WithGroup("g")
			}
		}
		for _, lv := range []logslog.Level{logslog.LevelWarn, logslog.LevelInfo, logslog.LevelError} {
			w.rec.reset()
			rec := logslog.NewRecord(tsZone, lv, msg, 0)
			rec.AddAttrs(logslog.Int("own", 5))
			if pan := catch(func() { _ = hh.Handle(ctx, rec) }); pan != "" {
				return mk("call-returns", firstLine(pan))
			}
			want := "under"
			if lv == logslog.LevelWarn {
				want = "level-writer"
			}
			if len(w.rec.events) != 1 || w.rec.events[0].W != want {
				var got []string
				for _, e := range w.rec.events {
					got = append(got, e.W)
				}
				return mk("keeps-destination", fmt.Sprintf("log/slog level %d through a handler derived by %v went to %v, the logger behind it sends it to [%s]", int(lv), cas.Chain, got, want))
			}
		}
		c15last = w.rec.events[0].Payload
		return nil
	}
	if cas.Layer == "L4x-writers-changed-after-derivation" {
		// the logger behind the handler writes to [console, file]; a handler is derived; then the logger's writers are changed.
		// "emitted once ... keep the destination": the derived handler's record reaches every writer of the logger's set - as it
		// was at the derivation or as it is now, the statement fixes neither - exactly once, and no writer twice.
		console, file, third := &plainW{"console", w.rec}, &plainW{"file", w.rec}, &plainW{"third", w.rec}
		w.l.SetWriter(console).AddWriter(file)
		w.l.SetErrorWriter(console).AddErrorWriter(file)
		hh := w.h
		for _, c := range cas.Chain {
			switch c {
			case "WithAttrs(a)":
				hh = hh.WithAttrs([]logslog.Attr{logslog.Int("wa", 11)})
			case "WithAttrs(b)":
				hh = hh.WithAttrs([]logslog.Attr{logslog.String("wb", "bee"), logslog.Bool("wc", true)})
			case "WithGroup(g)":
				hh = hh.WithGroup("g")
			}
		}
		before := []string{"console", "file"}
		var after []string
		switch cas.WriterOp {
		case "RemoveWriter(console)":
			w.l.RemoveWriter(console)
			w.l.RemoveErrorWriter(console)
			after = []string{"file"}
		case "RemoveWriter(file)":
			w.l.RemoveWriter(file)
			w.l.RemoveErrorWriter(file)
			after = []string{"console"}
		case "AddWriter(third)":
			w.l.AddWriter(third)
			w.l.AddErrorWriter(third)
			after = []string{"console", "file", "third"}
		case "SetWriter(third)":
			w.l.SetWriter(third)
			w.l.SetErrorWriter(third)
			after = []string{"third"}
		case "RemoveWriter(console) AddWriter(third)":
			w.l.RemoveWriter(console).AddWriter(third)
			w.l.RemoveErrorWriter(console).AddErrorWriter(third)
			after = []string{"file", "third"}
		}
		for _, lv := range []logslog.Level{logslog.LevelInfo, logslog.LevelError} {
			w.rec.reset()
			rec := logslog.NewRecord(tsZone, lv, msg, 0)
			rec.AddAttrs(logslog.Int("own", 5))
			if pan := catch(func() { _ = hh.Handle(ctx, rec) }); pan != "" {
				return mk("call-returns", firstLine(pan))
			}
			var got []string
			for _, e := range w.rec.events {
				got = append(got, e.W)
			}
			sort.Strings(got)
			if g := strings.Join(got, ","); g != strings.Join(before, ",") && g != strings.Join(after, ",") {
				return mk("emitted-once-per-destination", fmt.Sprintf("log/slog level %d through a handler derived by %v before %s on the logger behind it: Write calls went to [%s]; the logger's writers were %v at the derivation and are %v now", int(lv), cas.Chain, cas.WriterOp, g, before, after))
			}
			for i := 1; i < len(w.rec.events); i++ {
				if w.rec.events[i].Payload != w.rec.events[0].Payload {
					return mk("emitted-once-per-destination", "the destinations of one record received different payloads")
				}
			}
		}
		if len(w.rec.events) > 0 {
			c15last = w.rec.events[0].Payload
		}
		return nil
	}
	if cas.Layer == "L4e-nosource-handler-and-another-logger" {
		// a handler without source info is in the middle of a record (a value logs on ANOTHER logger while it is
		// formatted): the other logger's record keeps its caller field - caller info is switched on process-wide
		hn := slog.NewSlogHandler(w.l, &slog.HandlerOptions{NoColor: cas.Format != "color", JSON: cas.Format == "json", NoSource: true})
		slog.AddFlags(slog.Lcaller)
		orec := &recorder{}
		other := slog.New("other-logger").SetWriter(&plainW{"o", orec}).SetErrorWriter(&plainW{"o", orec}).SetLevel(slog.AlwaysLevel).SetJSONMode(true)
		outer := logslog.NewRecord(tsZone, logslog.LevelError, msg, 0)
		outer.AddAttrs(logslog.Int("b", 1), logslog.Any("c", reentFn{func() { other.Info("inner record of another logger") }, "sea"}), logslog.Int("d", 4))
		if pan := catch(func() { _ = hn.Handle(ctx, outer) }); pan != "" {
			return mk("call-returns", firstLine(pan))
		}
		if len(orec.events) != 1 {
			return mk("emitted-once", fmt.Sprintf("the other logger wrote %d records", len(orec.events)))
		}
		if obj, err := jsonx.DecodeLine([]byte(orec.events[0].Payload)); err != nil {
			return mk("decodable", err.Error())
		} else if _, ok := obj.Get("caller"); !ok {
			return mk("other-logger-unaffected", fmt.Sprintf("a record of another logger, written while the no-source handler was formatting, lost its caller field: %.250q", orec.events[0].Payload))
		}
		if !slog.IsAnyBitsSet(slog.Lcaller) {
			return mk("other-logger-unaffected", "the process-wide caller flag is off after the no-source handler handled a record")
		}
		c15last = orec.events[0].Payload
		return nil
	}
	if cas.Layer == "L4d-reentrant" {
		// one derived handler with a bound attribute handles a record one of whose values, while it is being
		// formatted, hands another record to the same handler: both records must come out whole
		hd := w.h.WithAttrs([]logslog.Attr{logslog.Int("a0", 11)})
		inner := logslog.NewRecord(tsZone, logslog.LevelWarn, "inner", 0)
		inner.AddAttrs(logslog.String("x", "ex"), logslog.Int("y", 2), logslog.Int("z", 3))
		outer := logslog.NewRecord(tsZone, logslog.LevelError, msg, 0)
		outer.AddAttrs(logslog.Int("b", 1), logslog.Any("c", reentFn{func() { _ = hd.Handle(ctx, inner) }, "sea"}), logslog.Int("d", 4), logslog.String("e", "end"))
		if pan := catch(func() { _ = hd.Handle(ctx, outer) }); pan != "" {
			return mk("call-returns", firstLine(pan))
		}
		if len(w.rec.events) != 2 {
			return mk("emitted-once", fmt.Sprintf("%d records for an outer and an inner record", len(w.rec.events)))
		}
		for i, want := range [][]string{{"a0", "x", "y", "z"}, {"a0", "b", "c", "d", "e"}} {
			r, e := c15decode(w.rec.events[i].Payload, cas.Format)
			if e != "" {
				return mk("decodable", e)
			}
			sort.Strings(r.keys)
			if fmt.Sprint(r.keys) != fmt.Sprint(want) {
				return mk("record-attrs", fmt.Sprintf("record %d (%s) carries the attributes %v, expected %v: %.250q", i, []string{"inner", "outer"}[i], r.keys, want, w.rec.events[i].Payload))
			}
		}
		c15last = w.rec.events[1].Payload
		return nil
	}
	if cas.Layer == "L4b-siblings" {
		// two handlers derived from the SAME parent (which itself is the third link of a chain): neither may disturb the other
		hA := h.WithAttrs([]logslog.Attr{logslog.String("req", "A")})
		hB := h.WithAttrs([]logslog.Attr{logslog.String("req", "B")})
		hC := h.WithGroup("grp").WithAttrs([]logslog.Attr{logslog.String("req", "C")})
		_ = hC
		for _, pr := range []struct {
			h    logslog.Handler
			want string
		}{{hA, "A"}, {hB, "B"}, {hA, "A"}} {
			w.rec.reset()
			rec := logslog.NewRecord(tsZone, logslog.LevelError, msg, 0)
			rec.AddAttrs(logslog.Int("own", 5))
			if pan := catch(func() { _ = pr.h.Handle(ctx, rec) }); pan != "" {
				return mk("call-returns", firstLine(pan))
			}
			if len(w.rec.events) != 1 {
				return mk("emitted-once", fmt.Sprintf("%d records", len(w.rec.events)))
			}
			r, e := c15decode(w.rec.events[0].Payload, cas.Format)
			if e != "" {
				return mk("decodable", e)
			}
			got := fmt.Sprint(r.attrs["req"])
			if got != pr.want && got != strconv.Quote(pr.want) {
				return mk("sibling-handlers-independent", fmt.Sprintf("handler derived with req=%s printed req=%v: %.250q", pr.want, r.attrs["req"], w.rec.events[0].Payload))
			}
			for _, k := range wantAttrs {
				if _, ok := r.attrs[k]; !ok {
					return mk("derived-attrs", fmt.Sprintf("attribute %q of the common parent is missing: %.250q", k, w.rec.events[0].Payload))
				}
			}
		}
		c15last = w.rec.events[0].Payload
		return nil
	}
	var attrs []logslog.Attr
	if at != nil {
		attrs = append(attrs, at.mk())
	} else {
		attrs = append(attrs, logslog.Int("own", 5))
	}
	ns, std := c15standard[cas.SlogLvl]
	recTime := tsZone
	if cas.RecYear != 0 {
		recTime = time.Date(cas.RecYear, 7, 4, 12, 30, 45, 123456000, time.FixedZone("", 5*3600+1800))
	}
	pan := catch(func() {
		if cas.Via == "Handle" {
			rec := logslog.NewRecord(recTime, logslog.Level(cas.SlogLvl), msg, 0)
			rec.AddAttrs(attrs...)
			_ = h.Handle(ctx, rec)
		} else {
			logslog.New(h).LogAttrs(ctx, logslog.Level(cas.SlogLvl), msg, attrs...)
		}
	})
	if pan != "" {
		return mk("call-returns", firstLine(pan))
	}
	if len(w.rec.events) > 1 {
		return mk("emitted-once", fmt.Sprintf("%d records on the underlying logger's writers", len(w.rec.events)))
	}
	if cas.Via == "Logger" && std {
		adm, fixed := refAdmit(effLevel, ns, cas.Debug, nil)
		if fixed && adm != (len(w.rec.events) == 1) {
			return mk("gating", fmt.Sprintf("log/slog level %d on a %s logger: reference admits=%v, records on the underlying writers=%d", cas.SlogLvl, levelName(effLevel), adm, len(w.rec.events)))
		}
	}
	if cas.Via == "Handle" && len(w.rec.events) != 1 {
		return mk("emitted-once", "Handle wrote nothing to the underlying logger's writers (destination lost?)")
	}
	if len(w.rec.events) == 0 {
		return nil
	}
	p := w.rec.events[0].Payload
	if got := classifyRecord(p); got != cas.Format {
		return mk("keeps-format", fmt.Sprintf("record looks like %s, handler format is %s: %.150q", got, cas.Format, p))
	}
	r, e := c15decode(p, cas.Format)
	if e != "" {
		return mk("decodable", e+fmt.Sprintf(": %.200q", p))
	}
	if std {
		if !c15levelMatches(cas.Format, r.level, ns) {
			return mk("namesake-level", fmt.Sprintf("log/slog level %d produced a %q record, expected %s", cas.SlogLvl, r.level, levelName(ns)))
		}
	} else if cas.SlogLvl != 16 && cas.SlogLvl != 17 {
		if c15levelMatches(cas.Format, r.level, slog.FatalLevel) || c15levelMatches(cas.Format, r.level, slog.PanicLevel) {
			return mk("no-terminating-severity", fmt.Sprintf("log/slog level %d produced a terminating %q record", cas.SlogLvl, r.level))
		}
	}
	if cas.Format != "color" && r.msg != msg {
		return mk("same-message", fmt.Sprintf("record message %q, logged %q", r.msg, msg))
	}
	if cas.Via == "Handle" && cas.Format != "color" {
		// the record's own instant (LstdFlags: local = the instant's own zone)
		want := recTime.Format(refDefaultLayout())
		switch cas.TimeCfg {
		case "utc":
			want = recTime.UTC().Format(refDefaultLayout())
		case "layout-utc":
			want = recTime.UTC().Format(time.RFC1123Z)
		}
		if r.time != want {
			return mk("record-time", fmt.Sprintf("record time %q, the record's own instant is %q", r.time, want))
		}
	}
	// attributes
	have := func(k string) bool {
		for _, kk := range r.keys {
			if kk == k || strings.HasPrefix(kk, k+".") || strings.HasSuffix(kk, "."+k) {
				return true
			}
		}
		if g, ok := r.attrs["g"].(*jsonx.Obj); ok {
			if _, ok := g.Get(k); ok {
				return true
			}
		}
		return false
	}
	for _, k := range wantAttrs {
		if !have(k) {
			return mk("derived-attrs", fmt.Sprintf("attribute %q added by the derivation chain is missing: %.250q", k, p))
		}
	}
	if at == nil {
		if !have("own") {
			return mk("record-attrs", fmt.Sprintf("the record's own attribute is missing: %.250q", p))
		}
	} else if cas.Format == "json" && len(cas.Chain) == 0 {
		v, ok := r.attrs["k"]
		if !ok && at.name != "Group empty" {
			return mk("record-attrs", fmt.Sprintf("attribute k (%s) missing: %.250q", at.name, p))
		}
		if rr := at.json(v); rr != "" {
			return mk("attr-value", fmt.Sprintf("%s: %s; %.250q", at.name, rr, p))
		}
	} else if at.name != "Group empty" && !have("k") {
		return mk("record-attrs", fmt.Sprintf("attribute k (%s) missing: %.250q", at.name, p))
	}
	if at != nil && cas.Format == "logfmt" && strings.Contains(at.name, "Group") && at.name != "Group empty" {
		// a group has no pair of its own in logfmt: its members are printed under dotted keys (C05)
		for _, kk := range r.keys {
			if kk == "k" {
				return mk("attr-value", fmt.Sprintf("%s: the group itself got a pair k= next to its members: %.250q", at.name, p))
			}
		}
	}
	c15last = p
	return nil
}

var c15last string
var c15unreachable int64

type c15ctxKey struct{}

func c15cases(thorough bool, emit func(c15case)) {
	formats := []string{"json", "logfmt", "color"}
	logLevels := []slog.Level{slog.OffLevel, slog.ErrorLevel, slog.WarnLevel, slog.InfoLevel, slog.DebugLevel, slog.TraceLevel, slog.AlwaysLevel, slog.PanicLevel}
	// L1: level conversion and gating, every log/slog level -20..20
	for lv := -20; lv <= 20; lv++ {
		for _, f := range formats {
			for _, L := range logLevels {
				for _, dbg := range []bool{false, true} {
					emit(c15case{Layer: "L1-levels", Format: f, LogLevel: int(L), SlogLvl: lv, Via: "Logger", Debug: dbg})
					emit(c15case{Layer: "L1-levels", Format: f, LogLevel: int(L), SlogLvl: lv, Via: "EntryLog", Debug: dbg})
					emit(c15case{Layer: "L1-levels", Format: f, LogLevel: int(L), SlogLvl: lv, Via: "Enabled", Debug: dbg})
				}
				emit(c15case{Layer: "L1-levels", Format: f, LogLevel: int(L), SlogLvl: lv, Via: "Handle"})
			}
		}
	}
	// L2: attribute kinds
	for _, a := range c15attrs() {
		for _, f := range formats {
			for _, via := range []string{"Handle", "Logger"} {
				emit(c15case{Layer: "L2-attrs", Format: f, LogLevel: int(slog.TraceLevel), SlogLvl: 0, Attr: a.name, Via: via})
			}
		}
	}
	// L3: handler options
	for _, f := range formats {
		for _, ns := range []bool{false, true} {
			for _, ol := range []slog.Level{slog.PanicLevel, slog.InfoLevel, slog.ErrorLevel, slog.DebugLevel} {
				for _, L := range []slog.Level{slog.WarnLevel, slog.TraceLevel} {
					for _, lv := range []int{-4, 0, 4, 8} {
						emit(c15case{Layer: "L3-options", Format: f, NoSource: ns, OptLevel: int(ol), LogLevel: int(L), SlogLvl: lv, Via: "Logger"})
						emit(c15case{Layer: "L3-options", Format: f, NoSource: ns, OptLevel: int(ol), LogLevel: int(L), SlogLvl: lv, Via: "Enabled"})
					}
				}
			}
		}
	}
	// L4: derivation chains
	steps := []string{"WithAttrs(a)", "WithAttrs(b)", "WithGroup(g)"}
	var chains [][]string
	var rec func(p []string)
	rec = func(p []string) {
		if len(p) > 0 {
			chains = append(chains, append([]string{}, p...))
		}
		if len(p) == 3 {
			return
		}
		for _, s := range steps {
			rec(append(p, s))
		}
	}
	rec(nil)
	for _, ch := range chains {
		for _, f := range formats {
			for _, L := range []slog.Level{slog.ErrorLevel, slog.InfoLevel, slog.TraceLevel} {
				for _, lv := range []int{-4, 0, 8} {
					for _, via := range []string{"Logger", "Handle"} {
						emit(c15case{Layer: "L4-chains", Format: f, LogLevel: int(L), SlogLvl: lv, Chain: ch, Via: via})
					}
				}
			}
		}
	}
	// L4c: the same derivation repeated after the logger behind the handler was reconfigured
	for _, ch := range [][]string{{"WithGroup(g)"}, {"WithAttrs(a)"}, {"WithAttrs(b)", "WithGroup(g)"}} {
		for _, f := range formats {
			for _, f2 := range formats {
				for _, L := range []slog.Level{slog.ErrorLevel, slog.InfoLevel} {
					for _, L2 := range []slog.Level{slog.ErrorLevel, slog.WarnLevel, slog.DebugLevel} {
						for _, lv := range []int{-4, 0, 4, 8} {
							emit(c15case{Layer: "L4c-rederive", Format: f, Format2: f2, LogLevel: int(L), Level2: int(L2), SlogLvl: lv, Chain: ch, Via: "Logger"})
						}
					}
				}
			}
		}
	}
	// L1r: the level tables after custom levels treated as the four standard ones were registered
	for lv := -20; lv <= 20; lv++ {
		if !thorough && lv%4 != 0 {
			continue
		}
		for _, f := range formats {
			for _, L := range []slog.Level{slog.ErrorLevel, slog.TraceLevel} {
				for _, via := range []string{"Logger", "EntryLog", "Enabled", "Handle"} {
					emit(c15case{Layer: "L1r-levels-after-registrations", Format: f, LogLevel: int(L), SlogLvl: lv, Via: via, Reg: true})
				}
			}
		}
	}
	// L2b: empty attributes between others; L4w: per-level writers of the logger behind the handler
	for _, f := range formats {
		emit(c15case{Layer: "L2b-empty-attr-between", Format: f, LogLevel: int(slog.TraceLevel), SlogLvl: 4, Via: "Handle"})
		emit(c15case{Layer: "L2c-many-attrs-with-duplicate", Format: f, LogLevel: int(slog.TraceLevel), SlogLvl: 4, Via: "Handle"})
		emit(c15case{Layer: "L4e-nosource-handler-and-another-logger", Format: f, LogLevel: int(slog.TraceLevel), SlogLvl: 8, Via: "Handle"})
		emit(c15case{Layer: "L4w-level-writer", Format: f, LogLevel: int(slog.TraceLevel), SlogLvl: 4, Via: "Handle"})
		for _, ch := range chains {
			emit(c15case{Layer: "L4w-level-writer", Format: f, LogLevel: int(slog.TraceLevel), SlogLvl: 4, Chain: ch, Via: "Handle"})
		}
	}
	// L2y: the record's own time far from the present (through Handle, every format and time configuration)
	for _, f := range formats {
		for _, y := range []int{1, 1500, 1677, 2263, 2500, 9999} {
			for _, tc := range []string{"", "utc"} {
				emit(c15case{Layer: "L2y-record-year", Format: f, LogLevel: int(slog.TraceLevel), SlogLvl: 4, Via: "Handle", RecYear: y, TimeCfg: tc})
			}
		}
	}
	// L4x: the writers of the logger behind the handler change after a handler was derived from it
	for _, f := range formats {
		for _, op := range []string{"RemoveWriter(console)", "RemoveWriter(file)", "AddWriter(third)", "SetWriter(third)", "RemoveWriter(console) AddWriter(third)"} {
			for _, ch := range chains {
				emit(c15case{Layer: "L4x-writers-changed-after-derivation", Format: f, LogLevel: int(slog.TraceLevel), SlogLvl: 4, Chain: ch, Via: "Handle", WriterOp: op})
			}
		}
	}
	// L4d: a value that re-enters the handler while its record is being formatted
	for _, f := range formats {
		emit(c15case{Layer: "L4d-reentrant", Format: f, LogLevel: int(slog.TraceLevel), SlogLvl: 8, Via: "Handle"})
	}
	// L4t: the time settings of the logger behind the handler, for the handler itself and for every derivation chain
	for _, tc := range []string{"utc", "local", "layout-utc"} {
		for _, f := range formats {
			emit(c15case{Layer: "L4t-time-settings", Format: f, LogLevel: int(slog.TraceLevel), SlogLvl: 4, Via: "Handle", TimeCfg: tc})
			for _, ch := range chains {
				emit(c15case{Layer: "L4t-time-settings", Format: f, LogLevel: int(slog.TraceLevel), SlogLvl: 4, Chain: ch, Via: "Handle", TimeCfg: tc})
			}
		}
	}
	// L4b: sibling handlers derived from one parent
	for _, ch := range chains {
		for _, f := range formats {
			emit(c15case{Layer: "L4b-siblings", Format: f, LogLevel: int(slog.TraceLevel), SlogLvl: 8, Chain: ch, Via: "Handle"})
		}
	}
	// L5b: the bridge is built first, the logger level changes afterwards (OptLevel = level at construction)
	for _, L0 := range []slog.Level{slog.OffLevel, slog.ErrorLevel, slog.WarnLevel, slog.InfoLevel, slog.TraceLevel, slog.AlwaysLevel} {
		for _, L1 := range []slog.Level{slog.OffLevel, slog.ErrorLevel, slog.WarnLevel, slog.InfoLevel, slog.TraceLevel, slog.AlwaysLevel} {
			for _, b := range []slog.Level{slog.ErrorLevel, slog.WarnLevel, slog.InfoLevel, slog.DebugLevel, slog.AlwaysLevel, slog.OKLevel} {
				emit(c15case{Layer: "L5b-bridge-then-setlevel", Format: "json", OptLevel: int(L0), LogLevel: int(L1), BridgeLv: int(b), MsgQ: strconv.Quote("a\n"), Via: "Bridge"})
			}
		}
	}
	// L5c / L5d: the bridge behind a bufio.Writer; the bridge's writer used as a destination of another logger first
	for _, L := range []slog.Level{slog.ErrorLevel, slog.InfoLevel, slog.TraceLevel} {
		for _, b := range []slog.Level{slog.ErrorLevel, slog.InfoLevel, slog.DebugLevel} {
			for _, f := range []string{"json", "logfmt"} {
				emit(c15case{Layer: "L5c-bridge-behind-bufio", Format: f, LogLevel: int(L), BridgeLv: int(b), Via: "Bridge"})
				emit(c15case{Layer: "L5d-bridge-writer-was-a-destination-first", Format: f, LogLevel: int(L), BridgeLv: int(b), Via: "Bridge"})
			}
		}
	}
	// L5: the std log bridge
	for _, L := range builtinLevels {
		for _, b := range builtinLevels {
			if b == slog.PanicLevel || b == slog.FatalLevel {
				continue // terminating severities are C12's business
			}
			for _, m := range []string{"", "\n", "a", "a\n", "a\n\n", "a\nb", "  padded  \n"} {
				for _, f := range formats {
					if !thorough && f != "json" && m != "a\n" {
						continue
					}
					emit(c15case{Layer: "L5-bridge", Format: f, LogLevel: int(L), BridgeLv: int(b), MsgQ: strconv.Quote(m), Via: "Bridge"})
				}
			}
		}
	}
}

func init() {
	register(&CheckDef{ID: "C15", Run: func(c *Ctx) {
		c.Flag("exhaustive", true)
		n := 0
		layers := map[string]int64{}
		c15cases(c.Thorough(), func(cas c15case) {
			n++
			cas.Ctx = []string{"", "cancelled", "with-values", "deadline-exceeded"}[(n/16)%4] // rotates independently of the shard (n%16)
			if !c.Mine(n) || c.Expired() {
				return
			}
			c.Count("evaluations", 1)
			layers[cas.Layer]++
			c15last = ""
			if v := c15eval(cas); v != nil {
				c.Violate(v)
				return
			}
			c.Count("distinct_nontrivial", 1)
			c.Outcome(c15last + cas.Via + fmt.Sprint(cas.SlogLvl, cas.LogLevel))
			if n%3001 == 0 {
				c.Sample(cas)
			}
		})
		for k, v := range layers {
			c.Count("layer_"+k, v)
		}
		c.Count("L4c_cases_skipped_logger_behind_handler_unreachable", c15unreachable)
		c.Assume("non-standard log/slog levels: only 'at most one record' and 'never a terminating severity' are checked")
		c.Assume("WithGroup: destination, format, level and presence of the attributes are checked, not the nesting of later attributes under the group")
	}, Replay: func(raw json.RawMessage) *Violation {
		var cas c15case
		if json.Unmarshal(raw, &cas) != nil {
			return nil
		}
		return c15eval(cas)
	}})
}
