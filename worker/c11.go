package main

// C11 - output format is a per-logger three-state machine. Shape H: BFS to a
// fixpoint over Set/With mode calls (and New options) on a growing tree of at
// most 5 loggers, state = (tree shape, format of every logger).

import (
	"log"
	"os"
	"encoding/json"
	"errors"
	"fmt"
	"strings"
	"time"

	"github.com/hedzr/logg/slog"

	"verif/oracle/jsonx"
	"verif/oracle/logfmt"
)

var c11argLists = [][]bool{nil, {true}, {false}, {true, false}, {false, true}}

func argListName(a []bool) string {
	var p []string
	for _, b := range a {
		p = append(p, fmt.Sprint(b))
	}
	return "(" + strings.Join(p, ",") + ")"
}

func lastOr(a []bool, def bool) bool {
	for _, b := range a {
		def = b
	}
	return def
}

type c11op struct {
	Kind   string `json:"kind"`   // SetJSON SetColor WithJSON WithColor NewJSON NewColor New
	Target int    `json:"target"` // logger index
	Args   int    `json:"args"`   // index into c11argLists
}

func (o c11op) String() string {
	names := map[string]string{"SetJSON": "SetJSONMode", "SetColor": "SetColorMode", "WithJSON": "WithJSONMode", "WithColor": "WithColorMode",
		"NewJSON": "New(name, WithJSONMode", "NewColor": "New(name, WithColorMode", "New": "New(name"}
	if o.Kind == "WithSkip1" {
		return fmt.Sprintf("L%d.WithSkip(1)", o.Target)
	}
	s := fmt.Sprintf("L%d.%s%s", o.Target, names[o.Kind], argListName(c11argLists[o.Args]))
	if strings.HasPrefix(o.Kind, "New") {
		if o.Kind == "New" {
			return fmt.Sprintf("L%d.New(name)", o.Target)
		}
		s += ")"
	}
	return s
}

type c11model struct {
	fmts   []string // json | color | logfmt
	parent []int
	skip1  []int // per logger: the index of the child WithSkip(1) returned for it, or 0 = none yet (index 0 is never a child)
}

func (m c11model) key() string { return fmt.Sprint(m.fmts, m.parent, m.skip1) }

func (m c11model) skipChild(t int) int {
	if t < len(m.skip1) {
		return m.skip1[t]
	}
	return 0
}

func applyJSON(cur string, args []bool) string {
	if lastOr(args, true) {
		return "json"
	}
	if cur == "json" {
		return "logfmt"
	}
	return cur
}

func applyColor(args []bool) string {
	if lastOr(args, true) {
		return "color"
	}
	return "logfmt"
}

const c11maxLoggers = 5

const c11Plain = slog.Level(41) // registered without colours

// modelOps lists the operations enabled in a model state (same order as c11world.ops).
func (m c11model) modelOps() []c11op {
	var ops []c11op
	for t := range m.fmts {
		for a := range c11argLists {
			ops = append(ops, c11op{"SetJSON", t, a}, c11op{"SetColor", t, a})
		}
		if len(m.fmts) < c11maxLoggers {
			for a := range c11argLists {
				ops = append(ops, c11op{"WithJSON", t, a}, c11op{"WithColor", t, a}, c11op{"NewJSON", t, a}, c11op{"NewColor", t, a})
			}
			ops = append(ops, c11op{"New", t, 0})
		}
		if m.skipChild(t) != 0 || len(m.fmts) < c11maxLoggers {
			ops = append(ops, c11op{"WithSkip1", t, 0}) // creates the skip child, or hands the existing one out again - unchanged
		}
	}
	return ops
}

// modelApply is the pure reference transition function.
func (m c11model) modelApply(o c11op) c11model {
	n := c11model{fmts: append([]string{}, m.fmts...), parent: append([]int{}, m.parent...), skip1: append([]int{}, m.skip1...)}
	for len(n.skip1) < len(n.fmts) {
		n.skip1 = append(n.skip1, 0)
	}
	args := c11argLists[o.Args]
	cur := m.fmts[o.Target]
	add := func(f string) { n.fmts = append(n.fmts, f); n.parent = append(n.parent, o.Target) }
	switch o.Kind {
	case "SetJSON":
		n.fmts[o.Target] = applyJSON(cur, args)
	case "SetColor":
		n.fmts[o.Target] = applyColor(args)
	case "WithJSON", "NewJSON":
		add(applyJSON(cur, args))
	case "WithColor", "NewColor":
		add(applyColor(args))
	case "New":
		add(cur)
	case "WithSkip1":
		if n.skip1[o.Target] == 0 {
			n.skip1[o.Target] = len(n.fmts)
			add(cur)
		}
	}
	for len(n.skip1) < len(n.fmts) {
		n.skip1 = append(n.skip1, 0)
	}
	return n
}

func c11rootModel(root int) c11model {
	st := []string{"color", "json", "logfmt"}[root]
	return c11model{fmts: []string{st, st, st}, parent: []int{-1, 0, 0}}
}

type c11world struct {
	bridges map[*slog.Entry]*log.Logger // a std log bridge per logger, built when the logger enters the world and used after every operation
	loggers []*slog.Entry
	rec     *recorder
	model   c11model
}

func c11new(root int) *c11world {
	resetGlobals()
	slog.SetFlags(slog.LstdFlags &^ slog.Lcaller)
	_ = slog.RegisterLevel(c11Plain, "plain41", slog.RegWithTreatedAsLevel(slog.InfoLevel))
	w := &c11world{rec: &recorder{}}
	wr := &plainW{"w", w.rec}
	var r *slog.Entry
	switch root {
	case 0: // detached root + child + sibling
		r = slog.VerifEntryOf(slog.New("root"))
	case 1:
		r = slog.VerifEntryOf(slog.New("root", slog.WithJSONMode()))
	case 2:
		r = slog.VerifEntryOf(slog.New("root", slog.WithColorMode(false)))
	}
	r.SetWriter(wr).SetErrorWriter(wr).SetLevel(slog.AlwaysLevel)
	st := []string{"color", "json", "logfmt"}[root]
	c := r.New("child")
	s := r.New("sibling")
	for _, l := range []*slog.Entry{c, s} {
		l.SetWriter(wr).SetErrorWriter(wr)
	}
	w.loggers = []*slog.Entry{r, c, s}
	w.model = c11model{fmts: []string{st, st, st}, parent: []int{-1, 0, 0}}
	return w
}

func (w *c11world) ops() []c11op {
	var ops []c11op
	for t := range w.loggers {
		for a := range c11argLists {
			ops = append(ops, c11op{"SetJSON", t, a}, c11op{"SetColor", t, a})
		}
		if len(w.loggers) < c11maxLoggers {
			for a := range c11argLists {
				ops = append(ops, c11op{"WithJSON", t, a}, c11op{"WithColor", t, a}, c11op{"NewJSON", t, a}, c11op{"NewColor", t, a})
			}
			ops = append(ops, c11op{"New", t, 0})
		}
		if w.model.skipChild(t) != 0 || len(w.loggers) < c11maxLoggers {
			ops = append(ops, c11op{"WithSkip1", t, 0})
		}
	}
	return ops
}

func (w *c11world) apply(o c11op) (pan string) {
	args := c11argLists[o.Args]
	l := w.loggers[o.Target]
	wr := &plainW{"w", w.rec}
	add := func(n *slog.Entry, f string) {
		n.SetWriter(wr).SetErrorWriter(wr)
		w.loggers = append(w.loggers, n)
		w.model.fmts = append(w.model.fmts, f)
		w.model.parent = append(w.model.parent, o.Target)
	}
	return catch(func() {
		cur := w.model.fmts[o.Target]
		name := fmt.Sprintf("n%d", len(w.loggers))
		switch o.Kind {
		case "SetJSON":
			if r := l.SetJSONMode(args...); r != l {
				panic("SetJSONMode did not return the receiver")
			}
			w.model.fmts[o.Target] = applyJSON(cur, args)
		case "SetColor":
			if r := l.SetColorMode(args...); r != l {
				panic("SetColorMode did not return the receiver")
			}
			w.model.fmts[o.Target] = applyColor(args)
		case "WithJSON":
			add(l.WithJSONMode(args...), applyJSON(cur, args))
		case "WithColor":
			add(l.WithColorMode(args...), applyColor(args))
		case "NewJSON":
			if (o.Target+o.Args+len(w.loggers))%2 == 1 {
				add(l.New(slog.WithJSONMode(args...)), applyJSON(cur, args)) // an anonymous child: the option comes first
			} else {
				add(l.New(name, slog.WithJSONMode(args...)), applyJSON(cur, args))
			}
		case "NewColor":
			if (o.Target+o.Args+len(w.loggers))%2 == 1 {
				add(l.New(slog.WithColorMode(args...)), applyColor(args))
			} else {
				add(l.New(name, slog.WithColorMode(args...)), applyColor(args))
			}
		case "New":
			add(l.New(name), cur)
		case "WithSkip1":
			ch := l.WithSkip(1)
			if idx := w.model.skipChild(o.Target); idx != 0 {
				if ch != w.loggers[idx] {
					panic("WithSkip(1) on the same logger returned another child than before")
				}
			} else {
				for len(w.model.skip1) < len(w.model.fmts) {
					w.model.skip1 = append(w.model.skip1, 0)
				}
				w.model.skip1[o.Target] = len(w.loggers)
				add(ch, cur)
			}
		}
		for len(w.model.skip1) < len(w.model.fmts) {
			w.model.skip1 = append(w.model.skip1, 0)
		}
	})
}

func classifyRecord(p string) string {
	if strings.HasPrefix(p, "{") {
		if _, err := jsonx.DecodeLine([]byte(p)); err == nil {
			return "json"
		}
		return "broken-json"
	}
	if strings.Contains(p, "\x1b") {
		return "color"
	}
	if strings.HasPrefix(p, "time=") {
		if _, err := logfmt.ParseLine([]byte(p)); err == nil {
			return "logfmt"
		}
		return "broken-logfmt"
	}
	return "unknown"
}

// check compares getters (always) and probe shapes (if probe) of every logger with the model.
// check compares every logger with the model; the loggers are visited starting with logger `first`.
func (w *c11world) check(probe bool, first ...int) (clause, detail string) {
	start := 0
	if len(first) > 0 && first[0] < len(w.loggers) {
		start = first[0]
	}
	for k := range w.loggers {
		i := (start + k) % len(w.loggers)
		l := w.loggers[i]
		want := w.model.fmts[i]
		if l.JSONMode() != (want == "json") || l.ColorMode() != (want == "color") {
			return "getters", fmt.Sprintf("logger L%d: model state %s, JSONMode()=%v ColorMode()=%v", i, want, l.JSONMode(), l.ColorMode())
		}
		// a line through the std log bridge that was built on this logger when it was created (and has printed before every
		// mode call since): its shape follows the logger's format like any other record
		if w.bridges == nil {
			w.bridges = map[*slog.Entry]*log.Logger{}
		}
		br := w.bridges[l]
		if br == nil {
			br = slog.NewLogLogger(l, slog.AlwaysLevel)
			w.bridges[l] = br
		}
		w.rec.reset()
		br.Print("through the bridge")
		if len(w.rec.events) != 1 {
			return "record-shape", fmt.Sprintf("logger L%d: %d writes for a line through its std log bridge", i, len(w.rec.events))
		}
		if got := classifyRecord(w.rec.events[0].Payload); got != want {
			return "record-shape", fmt.Sprintf("logger L%d: model state %s but a line through the std log bridge built on it looks like %s: %.120q", i, want, got, w.rec.events[0].Payload)
		}
		if wantP := w.model.parent[i]; wantP >= 0 && l.Parent() != w.loggers[wantP] {
			return "tree", fmt.Sprintf("logger L%d: parent is not L%d", i, wantP)
		}
		{
			type probeRec struct {
				sev   slog.Level
				msg   string
				attrs slog.Attrs
			}
			withAttrs := slog.Attrs{slog.Int("k", 1), slog.NewAttr("err", errors.New("boom"))}
			probes := []probeRec{
				{slog.InfoLevel, "probe\nwith a second line\nand a third\n", withAttrs}, // coloured records keep per-record line state in the pooled context
				{c11Plain, "probe", withAttrs},
				{slog.Level(77), "probe", withAttrs},
				// records that carry neither a text nor an attribute are records of the logger's format like any other
				{slog.InfoLevel, "", nil},
				{slog.WarnLevel, " \n", nil},
			}
			if !probe {
				probes = probes[:1] // intermediate states: one record per logger; final state: all of them
			}
			for _, pr := range probes {
				sev := pr.sev
				w.rec.reset()
				l.WriteThru(bg, sev, fixedTime, 0, pr.msg, pr.attrs)
				if len(w.rec.events) != 1 {
					return "record-shape", fmt.Sprintf("logger L%d: %d writes for the probe", i, len(w.rec.events))
				}
				if got := classifyRecord(w.rec.events[0].Payload); got != want {
					return "record-shape", fmt.Sprintf("logger L%d: model state %s but a record at severity %s looks like %s: %.120q", i, want, levelName(sev), got, w.rec.events[0].Payload)
				}
			}
		}
	}
	return "", ""
}

type c11case struct {
	Root int     `json:"root"`
	Ops  []c11op `json:"ops"`
}

func c11replay(cas c11case, probeAll bool) (*Violation, string) {
	w := c11new(cas.Root)
	mk := func(clause, detail string, upto int) *Violation {
		cc := c11case{Root: cas.Root, Ops: cas.Ops[:upto]}
		var t []string
		for _, o := range cc.Ops {
			t = append(t, o.String())
		}
		return mkViolation(fmt.Sprintf("C11|%s|root=%d|%s", clause, cas.Root, strings.Join(t, ";")), clause, detail+" [history: "+strings.Join(t, "; ")+"]", cc)
	}
	if len(cas.Ops) == 0 || probeAll {
		if cl, d := w.check(true); cl != "" {
			return mk(cl, d, 0), ""
		}
	}
	for i, o := range cas.Ops {
		if o.Target >= len(w.loggers) {
			return nil, ""
		}
		// the target logs a record right before the operation and is the first to log after it
		// (no record of another logger in between)
		w.rec.reset()
		w.loggers[o.Target].WriteThru(bg, slog.InfoLevel, fixedTime, 0, "before the operation\nsecond line", nil)
		if pan := w.apply(o); pan != "" {
			return mk("op-returns", o.String()+": "+firstLine(pan), i+1), ""
		}
		if cl, d := w.check(probeAll || i == len(cas.Ops)-1, o.Target); cl != "" { // every logger emits a record after EVERY operation (three severities in the final state)
			return mk(cl, d, i+1), ""
		}
	}
	return nil, w.model.key()
}

func init() {
	register(&CheckDef{ID: "C11", Run: c11run, Replay: func(raw json.RawMessage) *Violation {
		var cas c11case
		if json.Unmarshal(raw, &cas) != nil {
			return nil
		}
		v, _ := c11replay(cas, true)
		return v
	}})
	_ = time.Now
}

func c11run(c *Ctx) {
	c.Flag("exhaustive", true)
	maxDepth := 4
	if c.Thorough() {
		maxDepth = 12
	}
	if os.Getenv("VERIF_PASS") == "nocolor" {
		// the pass whose process has NO_COLOR set: the statement lets nothing but the mode calls decide the format
		maxDepth = 3
		if c.Thorough() {
			maxDepth = 5
		}
		c.Info("depth_in_the_pass_with_NO_COLOR_set", maxDepth)
	}
	// The BFS itself runs over the pure reference machine (identical in every
	// worker, so the de-duplication is global); every transition of that graph
	// is replayed on the real loggers by exactly one worker.
	type node struct {
		cas c11case
		m   c11model
	}
	seen := map[string]bool{}
	var frontier []node
	for root := 0; root < 3; root++ {
		m := c11rootModel(root)
		seen[fmt.Sprint(root, m.key())] = true
		frontier = append(frontier, node{c11case{Root: root}, m})
		if c.Shard == 0 {
			c.Count("states", 1)
			if v, _ := c11replay(c11case{Root: root}, true); v != nil {
				c.Violate(v)
			}
		}
	}
	depthDone := 0
	fix := false
	n := 0
	for depth := 1; depth <= maxDepth; depth++ {
		var next []node
		for _, h := range frontier {
			for _, o := range h.m.modelOps() {
				n++
				cas := c11case{Root: h.cas.Root, Ops: append(append([]c11op{}, h.cas.Ops...), o)}
				nm := h.m.modelApply(o)
				key := fmt.Sprint(h.cas.Root, nm.key())
				isNew := !seen[key]
				if isNew {
					seen[key] = true
					next = append(next, node{cas, nm})
					if c.Shard == 0 {
						c.Count("states", 1)
					}
				}
				if !c.Mine(n) {
					continue
				}
				v, k := c11replay(cas, false)
				c.Count("transitions", 1)
				if v != nil {
					c.Violate(v)
					continue
				}
				if k != nm.key() {
					c.Violate(mkViolation("C11|model-divergence", "model-divergence", "worker-internal: replay model and BFS model disagree", cas))
				}
				c.Outcome(key)
			}
			if c.Expired() {
				break
			}
		}
		if c.Expired() {
			break
		}
		depthDone = depth
		frontier = next
		if len(next) == 0 {
			fix = true
			break
		}
		if depth == 2 && len(next) > 0 && c.Shard == 0 {
			x := next[len(next)/2]
			var t []string
			for _, o := range x.cas.Ops {
				t = append(t, o.String())
			}
			c.Sample(map[string]any{"root": x.cas.Root, "history": t})
		}
	}
	c.Flag("fixpoint", fix)
	c.Max("depth_completed", int64(depthDone))
}
