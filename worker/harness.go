package main

import (
	"context"
	"fmt"
	"io"
	"os"
	"sort"
	"strings"
	"time"

	"github.com/hedzr/logg/slog"

	"verif/shim/vsync"
)

// ---------------------------------------------------------------- recording writers

type writeEvent struct {
	W       string
	Payload string
}

// recorder collects the Write events of all writers created from it, in order.
type recorder struct {
	events []writeEvent
}

func (r *recorder) reset() { r.events = r.events[:0] }

func (r *recorder) byWriter(name string) (ret []string) {
	for _, e := range r.events {
		if e.W == name {
			ret = append(ret, e.Payload)
		}
	}
	return
}

func (r *recorder) all() string {
	var sb strings.Builder
	for _, e := range r.events {
		sb.WriteString(e.Payload)
	}
	return sb.String()
}

// plainW implements io.Writer only.
type plainW struct {
	name string
	rec  *recorder
}

func (w *plainW) Write(p []byte) (int, error) {
	w.rec.events = append(w.rec.events, writeEvent{w.name, string(p)})
	return len(p), nil
}

// reentV is a value whose String method logs other records (on side loggers
// that write to io.Discard) while the record it belongs to is being formatted:
// a re-entrant use of the library from one goroutine. The statement of no
// property excludes it; the text it returns is all that may be seen of it.
type reentV struct{ s string }

func (r reentV) String() string { reentLog(); return r.s }

// reentFormats: formats of the side records written by reentLog.
var reentFormats = []string{"json", "logfmt", "color"}

// reentNoPoolChoice: the side records take the most recently returned pooled
// object instead of opening an environment choice (keeps C09's DFS small).
var reentNoPoolChoice bool

func reentLog() {
	if reentNoPoolChoice && !vsync.NoPoolChoice {
		vsync.NoPoolChoice = true
		defer func() { vsync.NoPoolChoice = false }()
	}
	for i, f := range reentFormats {
		l := slog.New("side" + f).SetWriter(io.Discard).SetErrorWriter(io.Discard).SetLevel(slog.AlwaysLevel)
		switch f {
		case "json":
			l.SetJSONMode(true)
		case "logfmt":
			l.SetColorMode(false)
		default:
			l.SetColorMode(true)
		}
		l.Warn("side record\nsecond line", "sk", i, slog.Group("omega", "a", 1, slog.Group("zzner", "b", 2, "c", "x y")), "tail", strings.Repeat("x", 40))
	}
}

// panicV is a value whose String method panics.
type panicV struct{}

func (panicV) String() string { panic("panicV.String") }

// reentW is a recording writer that logs a side record before it looks at its bytes.
type reentW struct{ plainW }

func (w *reentW) Write(p []byte) (int, error) {
	reentLog()
	return w.plainW.Write(p)
}

// closerW implements slog.LogWriter (Write + Close).
type closerW struct {
	plainW
	closed int
}

func (w *closerW) Close() error { w.closed++; return nil }

// levelW implements io.Writer + slog.LevelSettable; SetLevel calls are recorded
// as events with payload "SetLevel(<n>)".
type levelW struct {
	plainW
}

func (w *levelW) SetLevel(l slog.Level) {
	w.rec.events = append(w.rec.events, writeEvent{w.name, fmt.Sprintf("\x00SetLevel(%d)", int(l))})
}

// ---------------------------------------------------------------- levels

var builtinLevels = []slog.Level{slog.PanicLevel, slog.FatalLevel, slog.ErrorLevel, slog.WarnLevel, slog.InfoLevel,
	slog.DebugLevel, slog.TraceLevel, slog.OffLevel, slog.AlwaysLevel, slog.OKLevel, slog.SuccessLevel, slog.FailLevel}

func levelName(l slog.Level) string {
	names := map[slog.Level]string{slog.PanicLevel: "Panic", slog.FatalLevel: "Fatal", slog.ErrorLevel: "Error", slog.WarnLevel: "Warn",
		slog.InfoLevel: "Info", slog.DebugLevel: "Debug", slog.TraceLevel: "Trace", slog.OffLevel: "Off", slog.AlwaysLevel: "Always",
		slog.OKLevel: "OK", slog.SuccessLevel: "Success", slog.FailLevel: "Fail"}
	if n, ok := names[l]; ok {
		return n
	}
	return fmt.Sprintf("L%d", int(l))
}

// refTreatedAs is the reference reading of "the built-in level it is treated as".
// customs maps registered custom levels to their treat-as level (absent: none).
func refTreatedAs(l slog.Level, customs map[slog.Level]slog.Level) (slog.Level, bool) {
	switch l {
	case slog.OKLevel, slog.SuccessLevel:
		return slog.InfoLevel, true
	case slog.FailLevel:
		return slog.ErrorLevel, true
	}
	if t, ok := customs[l]; ok {
		return t, true
	}
	return l, false
}

// refAdmit is the reference admission rule of C01. ok=false means the
// statement does not fix the answer for this (L, r) pair (three-valued oracle).
func refAdmit(L, r slog.Level, debug bool, customs map[slog.Level]slog.Level) (admit, ok bool) {
	if L == slog.OffLevel || r == slog.OffLevel {
		return false, true
	}
	if L == slog.AlwaysLevel || r == slog.AlwaysLevel {
		return true, true
	}
	if debug && r == slog.DebugLevel {
		return true, true
	}
	tr, _ := refTreatedAs(r, customs)
	if tr == slog.OffLevel || tr == slog.AlwaysLevel {
		return false, false // pathological treat-as: not fixed by the statement
	}
	rawL := L
	trL, has := refTreatedAs(L, customs)
	a1 := tr <= rawL
	if !has {
		return a1, true
	}
	a2 := tr <= trL
	if a1 == a2 {
		return a1, true
	}
	return false, false
}

// refErrorClass: severities routed to the error writers.
func refErrorClass(l slog.Level, customErr map[slog.Level]bool) bool {
	switch l {
	case slog.PanicLevel, slog.FatalLevel, slog.ErrorLevel, slog.WarnLevel, slog.FailLevel:
		return true
	}
	return customErr[l]
}

// ---------------------------------------------------------------- misc

var fixedTime = time.Date(2024, 3, 4, 5, 6, 7, 123456789, time.UTC)

var bg = context.Background()

func sortedStrings(m map[string]bool) []string {
	var r []string
	for k := range m {
		r = append(r, k)
	}
	sort.Strings(r)
	return r
}

// withFlags runs f with the given flags added/removed and restores them.
func withFlags(add, remove slog.Flags, f func()) {
	save := slog.GetFlags()
	slog.SetFlags((save | add) &^ remove)
	defer slog.SetFlags(save)
	f()
}

func osGetenv(k string) string { return os.Getenv(k) }

// setFlagsVia puts the package flags to fl through one of several API paths
// that must be equivalent: 0 = SetFlags; 1 = SetFlags followed by a
// SaveFlagsAndMod scope (which flips some bits and is closed again);
// 2 = ResetFlags + AddFlags + RemoveFlags; 3 = bit-by-bit AddFlags/RemoveFlags.
func setFlagsVia(fl slog.Flags, variant int) {
	switch variant % 4 {
	case 0:
		slog.SetFlags(fl)
	case 1:
		slog.SetFlags(fl)
		all := slog.Ldatetimeflags | slog.LlocalTime | slog.LattrsR | slog.Lcaller | slog.Lprivacypath | slog.Lprivacypathregexp | slog.LnoInterrupt | slog.Linterruptalways
		restore := slog.SaveFlagsAndMod(all&^fl, all&fl)
		restore()
	case 2:
		slog.ResetFlags()
		slog.AddFlags(fl &^ slog.LstdFlags)
		slog.RemoveFlags(slog.LstdFlags &^ fl)
	case 3:
		slog.SetFlags(0)
		for b := slog.Flags(1); b != 0 && b <= slog.Linterruptalways; b <<= 1 {
			if fl&b != 0 {
				slog.AddFlags(b)
			}
		}
	}
	if slog.GetFlags() != fl {
		panic(fmt.Sprintf("setFlagsVia(%d): flags are %d, want %d", variant, int64(slog.GetFlags()), int64(fl)))
	}
}

// refDefaultLayout is the reference for "the layout selected by the date/time/microseconds flags"
// (documented meaning of the three flags; exported layout constants of the package).
func refDefaultLayout() string {
	switch slog.GetFlags() & slog.Ldatetimeflags {
	case slog.Ldate:
		return "2006-01-02"
	case slog.Ltime:
		return slog.TimeNoNano
	case slog.Ldate | slog.Ltime:
		return slog.DateTime
	case slog.Ldate | slog.Ltime | slog.Lmicroseconds, slog.Ldate | slog.Lmicroseconds:
		return slog.RFC3339Nano
	}
	return slog.TimeNano
}
