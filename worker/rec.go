package main

// Shared record cases for the format checks (C02/C04/C05/C06/C07): a
// JSON-serialisable description of one log call, the function that issues it
// on the real library, and a small delta-debugging minimiser.

import (
	"context"
	"fmt"
	"io"
	"strconv"
	"strings"
	"time"

	"github.com/hedzr/logg/slog"
)

type attrNode struct {
	K   string     `json:"k"`                  // Go-quoted key
	V   string     `json:"v,omitempty"`        // valSpec name (leaf)
	G   []attrNode `json:"g,omitempty"`        // members (group)
	IsG bool       `json:"is_group,omitempty"` // group (possibly empty)
	Ref string     `json:"ref,omitempty"`      // nodes with the same non-empty Ref are ONE attribute object used in several places
}

// attribute objects shared between several places of one record (see attrNode.Ref); reset by emitRecord
var sharedAttrObjects = map[string]slog.Attr{}

func qk(s string) string { return strconv.Quote(s) }

func (n attrNode) key() string {
	s, err := strconv.Unquote(n.K)
	if err != nil {
		return n.K
	}
	return s
}

func leaf(key, val string) attrNode { return attrNode{K: qk(key), V: val} }
func group(key string, members ...attrNode) attrNode {
	return attrNode{K: qk(key), G: members, IsG: true}
}

func (n attrNode) String() string {
	if n.IsG {
		var parts []string
		for _, m := range n.G {
			parts = append(parts, m.String())
		}
		return n.K + ":{" + strings.Join(parts, ",") + "}"
	}
	return n.K + "=" + n.V
}

func nodesString(ns []attrNode) string {
	var parts []string
	for _, n := range ns {
		parts = append(parts, n.String())
	}
	return strings.Join(parts, " ")
}

func buildAttr(n attrNode) slog.Attr {
	if n.Ref != "" {
		if a, ok := sharedAttrObjects[n.Ref]; ok {
			return a
		}
		m := n
		m.Ref = ""
		a := buildAttr(m)
		sharedAttrObjects[n.Ref] = a
		return a
	}
	if n.IsG {
		members := make([]slog.Attr, 0, len(n.G))
		for _, m := range n.G {
			members = append(members, buildAttr(m))
		}
		return mkGroup(n.key(), members)
	}
	vs := valSpecByName(n.V)
	if vs == nil {
		panic("unknown value spec " + n.V)
	}
	return slog.NewAttr(n.key(), vs.Mk())
}

// mkGroup builds a group through one of the constructors the API offers; which one depends on
// the group's shape only (a group is a group however it was made).
func mkGroup(key string, members []slog.Attr) slog.Attr {
	if len(members) == 0 {
		// an empty group: a nil member list as often as an empty one
		switch len(key) % 4 {
		case 0:
			return slog.NewGroupedAttr(key)
		case 1:
			return slog.NewAttr(key, slog.Attrs(nil))
		}
	}
	switch (len(key) + len(members)) % 4 {
	case 1:
		return slog.NewAttr(key, slog.Attrs(members)) // what a "key", Attrs{...} pair in an argument list becomes
	case 2:
		args := make([]any, 0, len(members))
		for _, m := range members {
			args = append(args, m)
		}
		return slog.Group(key, args...)
	case 3:
		args := make([]any, 0, len(members))
		for _, m := range members {
			args = append(args, m)
		}
		return slog.NewGroupedAttrEasy(key, args...)
	}
	return slog.NewGroupedAttr(key, members...)
}

func buildAttrMut(n attrNode, pend *[]c07pending) slog.Attr {
	if n.IsG {
		members := make([]slog.Attr, 0, len(n.G))
		for _, m := range n.G {
			members = append(members, buildAttrMut(m, pend))
		}
		g := slog.NewGroupedAttr(n.key(), slog.NewAttr("zz-old", 1), slog.NewAttr("aa-old", "x"))
		*pend = append(*pend, c07pending{g, members})
		return g
	}
	return buildAttr(n)
}

type recCase struct {
	Layer  string     `json:"layer"`
	Format string     `json:"format"` // json | logfmt | color
	MsgQ   string     `json:"msg"`    // Go-quoted message
	Attrs  []attrNode `json:"attrs"`
	Caller bool       `json:"caller"`
	Named  bool       `json:"named"`
	Level  int        `json:"level"`
	Entry  string     `json:"entry,omitempty"` // "" = LogAttrs
	LOW    int        `json:"level_width,omitempty"`
	MMW    int        `json:"min_msg_width,omitempty"`
	// Prior: records with the same attributes (reversed order, other messages) issued on other
	// loggers of every format right before the call; their output is not judged
	Prior bool `json:"prior,omitempty"`
	// NameQ: Go-quoted logger name used instead of "lg" when Named (a name is a string-like value too)
	NameQ string `json:"logger_name,omitempty"`
}

// loggerName returns the name a Named case gives its logger.
// recAnonName is the name the library gave the anonymous child of the last emitRecord call.
var recAnonName string

const recAnonChild = "<anonymous child of a named logger>"

func (rc recCase) loggerName() string {
	if rc.NameQ == recAnonChild {
		return recAnonName
	}
	if rc.NameQ != "" {
		if s, err := strconv.Unquote(rc.NameQ); err == nil {
			return s
		}
	}
	return recLoggerName
}

func (rc recCase) msg() string {
	s, err := strconv.Unquote(rc.MsgQ)
	if err != nil {
		return rc.MsgQ
	}
	return s
}

func (rc recCase) clone() recCase {
	c := rc
	c.Attrs = cloneNodes(rc.Attrs)
	return c
}

func cloneNodes(ns []attrNode) []attrNode {
	if ns == nil {
		return nil
	}
	out := make([]attrNode, len(ns))
	for i, n := range ns {
		out[i] = n
		out[i].G = cloneNodes(n.G)
	}
	return out
}

const recLoggerName = "lg"

// registered levels whose titles are free text (a quote, an equals sign, a control byte, a line break)
const (
	recLvQuote = slog.Level(91)
	recLvCtl   = slog.Level(92)
)

var recSeverities = []slog.Level{slog.ErrorLevel, slog.WarnLevel, slog.DebugLevel, slog.TraceLevel, slog.OKLevel, slog.FailLevel, slog.PanicLevel, slog.FatalLevel,
	slog.Level(77), recLvQuote, recLvCtl}

func recRegisterLevels() {
	_ = slog.RegisterLevel(recLvQuote, `AUDIT" admin="true`, slog.RegWithTreatedAsLevel(slog.InfoLevel))
	_ = slog.RegisterLevel(recLvCtl, "bell\x07 and\nbreak", slog.RegWithTreatedAsLevel(slog.InfoLevel))
}

// emitRecord issues the call described by rc on a fresh logger that writes to
// one recording writer and returns the Write payloads.
func emitRecord(rc recCase) (payloads []string, pan string) {
	recRegisterLevels()
	rec := &recorder{}
	var w io.Writer = &plainW{"w", rec}
	if rc.Prior {
		// ... and the destination logs a side record itself before it looks at its bytes
		w = &reentW{plainW{"w", rec}}
	}
	var l slog.Logger
	if rc.Named && rc.NameQ == recAnonChild {
		// an anonymous child: the library picks its name; the record must carry the name the child reports
		ch := slog.New("anon-parent").New()
		recAnonName = ch.Name()
		l = ch
	} else if rc.Named {
		l = slog.New(rc.loggerName())
	} else {
		l = slog.New()
	}
	l.SetWriter(w).SetErrorWriter(w).SetLevel(slog.AlwaysLevel)
	switch rc.Format {
	case "json":
		l.SetJSONMode(true)
	case "logfmt":
		l.SetColorMode(false)
	default:
		l.SetColorMode(true)
	}
	saveFlags := slog.GetFlags()
	if rc.Caller {
		slog.AddFlags(slog.Lcaller)
	} else {
		slog.RemoveFlags(slog.Lcaller)
	}
	slog.AddFlags(slog.LnoInterrupt)
	saveHook := slog.VerifNowHook
	slog.VerifNowHook = func() time.Time { return fixedTime }
	low, mmw := slog.VerifLevelOutputWidth(), slog.VerifMinimalMessageWidth()
	if rc.LOW > 0 || rc.MMW > 0 {
		nl, nm := low, mmw
		if rc.LOW > 0 {
			nl = rc.LOW
		}
		if rc.MMW > 0 {
			nm = rc.MMW
		}
		// through the public setters where the value is one they document as accepted (tag width 0..5, message width >= 16)
		slog.VerifSetWidths(nl, nm)
		if rc.LOW >= 0 && rc.LOW <= 5 && rc.LOW > 0 {
			slog.VerifSetWidths(3, nm)
			slog.SetLevelOutputWidth(rc.LOW)
		}
		if rc.MMW >= 16 {
			cur := slog.VerifLevelOutputWidth()
			slog.VerifSetWidths(cur, 36)
			slog.SetMessageMinimalWidth(rc.MMW)
		}
	}
	defer func() {
		slog.SetFlags(saveFlags)
		slog.VerifNowHook = saveHook
		slog.VerifSetWidths(low, mmw)
	}()
	sharedAttrObjects = map[string]slog.Attr{}
	args := make([]any, 0, len(rc.Attrs))
	var pend []c07pending
	for _, n := range rc.Attrs {
		if rc.Prior {
			// groups are built with other members, printed once, and given their final members afterwards
			args = append(args, buildAttrMut(n, &pend))
		} else {
			args = append(args, buildAttr(n))
		}
	}
	if rc.Prior && len(pend) > 0 {
		pl := slog.New("prior0").SetWriter(io.Discard).SetErrorWriter(io.Discard).SetLevel(slog.AlwaysLevel)
		c16format(pl, rc.Format)
		catch(func() { pl.LogAttrs(context.Background(), slog.WarnLevel, "groups before they were changed", args...) })
		c07mutate(pend)
	}
	if rc.Prior {
		for i, f := range []string{"json", "logfmt", "color", rc.Format} {
			pl := slog.New("prior").SetWriter(io.Discard).SetErrorWriter(io.Discard).SetLevel(slog.AlwaysLevel)
			switch f {
			case "json":
				pl.SetJSONMode(true)
			case "logfmt":
				pl.SetColorMode(false)
			default:
				pl.SetColorMode(true)
			}
			if i == 1 {
				// one of the earlier loggers was set to Debug (that switches the process-wide debug mode on; it is not
				// "under go test or a debugger")
				pl.SetLevel(slog.DebugLevel)
			}
			pargs := make([]any, 0, len(rc.Attrs)+1)
			if i%2 == 1 {
				pargs = append(pargs, slog.NewAttr("first", "x"))
			}
			for j := len(rc.Attrs) - 1; j >= 0; j-- {
				pargs = append(pargs, buildAttr(rc.Attrs[j]))
			}
			catch(func() {
				pl.LogAttrs(context.Background(), slog.WarnLevel, strings.Repeat("a prior record, ", i+1)+"\nwith a second line", pargs...)
			})
			if i == 3 {
				// and a call that does not complete: one of its values panics while it is formatted (recovered by the caller)
				catch(func() {
					pl.LogAttrs(context.Background(), slog.WarnLevel, "a value panics", "a", 1, slog.Group("peer", "x", 1, slog.Group("in", "v", panicV{}, "w", 2)), "z", 3)
				})
			}
		}
	}
	if rc.Entry == "WriteThru-pc0" {
		// the explicit-timestamp entry point with no program counter (0): no caller frame is known
		as := make(slog.Attrs, 0, len(args))
		for _, a := range args {
			as = append(as, a.(slog.Attr))
		}
		pan = catch(func() { slog.VerifEntryOf(l).WriteThru(context.Background(), slog.Level(rc.Level), fixedTime, 0, rc.msg(), as) })
	} else {
		pan = catch(func() { l.LogAttrs(context.Background(), slog.Level(rc.Level), rc.msg(), args...) })
	}
	for _, e := range rec.events {
		payloads = append(payloads, e.Payload)
	}
	lastPayloads = payloads
	return
}

// lastPayloads holds the payloads of the most recent emitRecord call (for outcome statistics).
var lastPayloads []string

// ---------------------------------------------------------------- minimiser

// minimizeRec shrinks rc while fails(rc) keeps returning a violation with the
// same clause: drops attributes, drops group members, unwraps groups, replaces
// leaf values by a benign one and shortens the message.
func minimizeRec(rc recCase, clause string, fails func(recCase) *Violation) recCase {
	still := func(c recCase) bool {
		v := fails(c)
		return v != nil && v.Clause == clause
	}
	changed := true
	for rounds := 0; changed && rounds < 20; rounds++ {
		changed = false
		// drop top-level attributes
		for i := 0; i < len(rc.Attrs); i++ {
			c := rc.clone()
			c.Attrs = append(c.Attrs[:i], c.Attrs[i+1:]...)
			if still(c) {
				rc = c
				changed = true
				i--
			}
		}
		// shrink inside groups
		var paths [][]int
		var walk func(ns []attrNode, prefix []int)
		walk = func(ns []attrNode, prefix []int) {
			for i, n := range ns {
				p := append(append([]int{}, prefix...), i)
				paths = append(paths, p)
				if n.IsG {
					walk(n.G, p)
				}
			}
		}
		walk(rc.Attrs, nil)
		for _, p := range paths {
			if len(p) < 2 {
				continue
			}
			c := rc.clone()
			if removeAt(&c.Attrs, p) && still(c) {
				rc = c
				changed = true
				break
			}
		}
		// replace leaf values by a benign value
		for _, p := range paths {
			c := rc.clone()
			n := nodeAt(c.Attrs, p)
			if n == nil || n.IsG || n.V == "int:-1" {
				continue
			}
			n.V = "int:-1"
			if still(c) {
				rc = c
				changed = true
			}
		}
		// simplify keys
		for _, p := range paths {
			c := rc.clone()
			n := nodeAt(c.Attrs, p)
			if n == nil {
				continue
			}
			simple := fmt.Sprintf("k%d", p[len(p)-1])
			if n.key() == simple {
				continue
			}
			n.K = qk(simple)
			if still(c) {
				rc = c
				changed = true
			}
		}
		// simplify message
		if rc.msg() != "m" {
			c := rc.clone()
			c.MsgQ = qk("m")
			if still(c) {
				rc = c
				changed = true
			}
		}
		// drop single bytes of the message
		if m := rc.msg(); len(m) > 1 && len(m) <= 64 {
			for i := 0; i < len(m); i++ {
				c := rc.clone()
				c.MsgQ = qk(m[:i] + m[i+1:])
				if still(c) {
					rc = c
					changed = true
					m = rc.msg()
					i--
				}
			}
		}
		if rc.LOW != 0 || rc.MMW != 0 {
			c := rc.clone()
			c.LOW, c.MMW = 0, 0
			if still(c) {
				rc = c
				changed = true
			}
		}
		if rc.Level != int(slog.InfoLevel) {
			c := rc.clone()
			c.Level = int(slog.InfoLevel)
			if still(c) {
				rc = c
				changed = true
			}
		}
		if rc.Caller {
			c := rc.clone()
			c.Caller = false
			if still(c) {
				rc = c
				changed = true
			}
		}
		if rc.Named {
			c := rc.clone()
			c.Named = false
			if still(c) {
				rc = c
				changed = true
			}
		}
	}
	return rc
}

func nodeAt(ns []attrNode, p []int) *attrNode {
	cur := ns
	for d, i := range p {
		if i >= len(cur) {
			return nil
		}
		if d == len(p)-1 {
			return &cur[i]
		}
		cur = cur[i].G
	}
	return nil
}

func removeAt(ns *[]attrNode, p []int) bool {
	if len(p) == 1 {
		if p[0] >= len(*ns) {
			return false
		}
		*ns = append((*ns)[:p[0]], (*ns)[p[0]+1:]...)
		return true
	}
	if p[0] >= len(*ns) {
		return false
	}
	return removeAt(&(*ns)[p[0]].G, p[1:])
}

// recSig renders the minimal case for a signature.
func recSig(rc recCase) string {
	s := fmt.Sprintf("msg=%s attrs=[%s]", rc.MsgQ, nodesString(rc.Attrs))
	if rc.Level != int(slog.InfoLevel) {
		s += fmt.Sprintf(" level=%d", rc.Level)
	}
	if rc.LOW != 0 || rc.MMW != 0 {
		s += fmt.Sprintf(" widths=%d/%d", rc.LOW, rc.MMW)
	}
	if rc.Caller {
		s += " caller"
	}
	if rc.Prior {
		s += " after-prior-records"
	}
	if rc.NameQ != "" {
		s += " logger=" + rc.NameQ
	}
	if rc.Entry != "" {
		s += " via=" + rc.Entry
	}
	if rc.Named {
		s += " named"
	}
	if len(s) > 300 {
		s = s[:300]
	}
	return s
}
