package main

// C07 - attribute assembly: sources, precedence, uniqueness and order. Shape I
// over logger chains x own-attribute lists x call-site lists x context-key
// sets x inherit flag x formats, against a reference merge.

import (
	"context"
	"encoding/json"
	"fmt"
	"io"
	"sort"
	"strconv"
	"strings"
	"time"

	"github.com/hedzr/logg/slog"

	"verif/oracle/jsonx"
	"verif/oracle/logfmt"
)

// kv is one attribute of a C07 case: a scalar with a unique integer identity or a group.
type kv struct {
	K   string `json:"k"`
	ID  int    `json:"id,omitempty"`
	G   []kv   `json:"g,omitempty"`
	IsG bool   `json:"is_group,omitempty"`
}

func (a kv) String() string {
	if a.IsG {
		var p []string
		for _, m := range a.G {
			p = append(p, m.String())
		}
		return a.K + "{" + strings.Join(p, ",") + "}"
	}
	return fmt.Sprintf("%s=%d", a.K, a.ID)
}

func kvsString(l []kv) string {
	var p []string
	for _, a := range l {
		p = append(p, a.String())
	}
	return "[" + strings.Join(p, " ") + "]"
}

func kvAttr(a kv) slog.Attr {
	if a.IsG {
		ms := make([]slog.Attr, 0, len(a.G))
		for _, m := range a.G {
			ms = append(ms, kvAttr(m))
		}
		return mkGroup(a.K, ms)
	}
	return slog.NewAttr(a.K, a.ID)
}

type c07case struct {
	Chain   [][]kv   `json:"chain"`    // own attributes per level, outermost first; the last one logs
	Call    []kv     `json:"call"`     // call-site attributes
	CtxKeys []string `json:"ctx_keys"` // registered context keys of the logging logger: "s:<name>" string key, "S:<name>" Stringer key, "x:<name>" other-typed key
	CtxHas  []string `json:"ctx_has"`  // keys present in the context (same notation)
	NilCtx  bool     `json:"nil_ctx"`
	AttrsR  bool     `json:"inherit_flag"`
	Format  string   `json:"format"`
	Pattern string   `json:"pattern,omitempty"`
	// Pre: what happened before the call and cannot matter by the statement
	//  prior-records   the logger logged without arguments, another logger (own attributes and arguments) logged in between, twice
	//  ctx-keys-reset  other context keys were registered and removed with ResetContextKeys before the final ones were registered
	//  colliding-pairs the logger first logged with plain "key", value pairs that collide with every key of the chain and of the context
	//  attrs-in-steps  every logger was given its own attributes one call at a time (SetAttrs, SetAttrs1, ... and Set for the last one)
	//  ancestors-completed-later  every ancestor first has only the first half of its attributes; the logging logger logs once; then the ancestors are given the rest
	//  groups-mutated  every group (own and call-site) was built with other members, printed once, then given its final members through SetValue/Add
	Pre string `json:"pre,omitempty"`
}

type c07pending struct {
	g     slog.Attr
	final []slog.Attr
}

// kvAttrMut builds a with placeholder members in every group and records what each group must become.
func kvAttrMut(a kv, pend *[]c07pending) slog.Attr {
	if a.IsG {
		ms := make([]slog.Attr, 0, len(a.G))
		for _, m := range a.G {
			ms = append(ms, kvAttrMut(m, pend))
		}
		g := slog.NewGroupedAttr(a.K, slog.NewAttr("zz-old", 1), slog.NewAttr("aa-old", 2))
		*pend = append(*pend, c07pending{g, ms})
		return g
	}
	return slog.NewAttr(a.K, a.ID)
}

type attrMutator interface {
	SetValue(v any)
}

func c07mutate(pend []c07pending) {
	for i, p := range pend {
		sv, ok := p.g.(attrMutator)
		if !ok {
			panic("group attribute has no SetValue")
		}
		switch i % 3 {
		case 0:
			sv.SetValue(slog.Attrs(p.final))
		case 1:
			sv.SetValue([]slog.Attr(p.final))
		default:
			sv.SetValue(slog.Attrs{})
			for j, m := range p.final {
				if ad, ok := p.g.(interface{ Add(as ...slog.Attr) }); ok && j%2 == 0 {
					ad.Add(m)
				} else {
					sv.SetValue(m)
				}
			}
		}
	}
}

type ctxStringerKey struct{ n string }

func (k ctxStringerKey) String() string { return k.n }

type ctxOtherKey struct{ n string }

func ctxKeyValue(spec string) any {
	n := spec[2:]
	switch spec[0] {
	case 's':
		return n
	case 'S':
		return ctxStringerKey{n}
	}
	return ctxOtherKey{n}
}

func ctxIDFor(spec string) int {
	if strings.HasSuffix(spec, ":zero") {
		return 0 // a value that is present in the context and equals the zero value of its type
	}
	h := 0
	for _, c := range spec {
		h = h*31 + int(c)
	}
	return 9000 + h%900
}

// refMerge is the reference model: sources in precedence order, keep the last
// occurrence per key, sort ascending, recursively inside groups.
func refMerge(cas c07case) []kv {
	var all []kv
	if !cas.NilCtx {
		has := map[string]bool{}
		for _, h := range cas.CtxHas {
			has[h] = true
		}
		for _, k := range cas.CtxKeys {
			if !has[k] || k[0] == 'x' {
				continue
			}
			all = append(all, kv{K: k[2:], ID: ctxIDFor(k)})
		}
	}
	n := len(cas.Chain)
	if cas.AttrsR {
		for _, l := range cas.Chain[:n-1] {
			all = append(all, l...)
		}
	}
	all = append(all, cas.Chain[n-1]...)
	all = append(all, cas.Call...)
	return normalizeKVs(all)
}

func normalizeKVs(l []kv) []kv {
	last := map[string]int{}
	for i, a := range l {
		last[a.K] = i
	}
	var out []kv
	for i, a := range l {
		if last[a.K] != i {
			continue
		}
		if a.IsG {
			a.G = normalizeKVs(a.G)
		}
		out = append(out, a)
	}
	sort.SliceStable(out, func(i, j int) bool { return out[i].K < out[j].K })
	return out
}

func flattenKVs(l []kv, prefix string, out *[][2]string) {
	for _, a := range l {
		k := a.K
		if prefix != "" {
			k = prefix + "." + k
		}
		if a.IsG {
			flattenKVs(a.G, k, out)
		} else {
			*out = append(*out, [2]string{k, strconv.Itoa(a.ID)})
		}
	}
}

func c07emit(cas c07case) (payloads []string, pan string) {
	caseSeq++
	resetAlt(caseSeq)
	fl := slog.LstdFlags &^ (slog.Lcaller | slog.LattrsR)
	if cas.AttrsR {
		fl |= slog.LattrsR
	}
	setFlagsVia(fl|slog.LnoInterrupt, caseSeq/2)
	slog.VerifNowHook = func() time.Time { return fixedTime }
	defer func() { slog.VerifNowHook = nil }()
	rec := &recorder{}
	w := &plainW{"w", rec}
	var l *slog.Entry
	var pend []c07pending
	mkAttr := kvAttr
	if cas.Pre == "groups-mutated" {
		mkAttr = func(a kv) slog.Attr { return kvAttrMut(a, &pend) }
	}
	type c07later struct {
		l    *slog.Entry
		rest []slog.Attr
	}
	var later []c07later
	for d, own := range cas.Chain {
		var attrs []slog.Attr
		for _, a := range own {
			attrs = append(attrs, mkAttr(a))
		}
		if cas.Pre == "ancestors-completed-later" && d < len(cas.Chain)-1 && len(attrs) > 0 {
			later = append(later, c07later{nil, attrs[len(attrs)/2:]})
			attrs = attrs[:len(attrs)/2]
		}
		name := fmt.Sprintf("l%d", d)
		if d == 0 {
			l = slog.VerifEntryOf(slog.New(name))
		} else {
			l = l.New(name)
		}
		if n := len(later); n > 0 && later[n-1].l == nil {
			later[n-1].l = l
		}
		if cas.Pre == "attrs-in-steps" {
			for i, a := range attrs {
				switch {
				case i == len(attrs)-1:
					l.Set(a)
				case i%2 == 0:
					l.SetAttrs(a)
				default:
					l.SetAttrs1(slog.Attrs{a})
				}
			}
			continue
		}
		// alternate between the ways of giving a logger its attributes
		switch (d + len(own)) % 4 {
		case 3:
			args := make([]any, 0, len(attrs))
			for _, a := range attrs {
				args = append(args, a)
			}
			l.SetAttrs1(slog.NewAttrs(args...))
		case 0:
			if len(attrs) > 0 {
				l.SetAttrs(attrs...)
			}
		case 1:
			args := make([]any, 0, len(attrs))
			for _, a := range attrs {
				args = append(args, a)
			}
			l.Set(args...)
		case 2:
			l.SetAttrs1(slog.Attrs(attrs))
		}
	}
	l.SetWriter(w).SetErrorWriter(w).SetLevel(slog.AlwaysLevel)
	switch cas.Format {
	case "json":
		l.SetJSONMode(true)
	case "logfmt":
		l.SetColorMode(false)
	default:
		l.SetColorMode(true)
	}
	if cas.Pre == "ctx-keys-reset" {
		l.SetContextKeys("old1", ctxStringerKey{"old2"}, "ctxs", ctxOtherKey{"old3"})
		l.ResetContextKeys()
	}
	if len(cas.CtxKeys) > 0 {
		var keys []any
		for _, k := range cas.CtxKeys {
			keys = append(keys, ctxKeyValue(k))
		}
		l.SetContextKeys(keys...)
	}
	var ctx context.Context
	if !cas.NilCtx {
		ctx = context.Background()
		for _, h := range cas.CtxHas {
			ctx = context.WithValue(ctx, ctxKeyValue(h), ctxIDFor(h))
		}
	}
	args := make([]any, 0, len(cas.Call))
	for i, a := range cas.Call {
		if !a.IsG && (len(cas.Call)+len(cas.Chain)+len(cas.CtxKeys)+i)%2 == 0 {
			args = append(args, a.K, a.ID) // a plain "key", value pair
		} else {
			args = append(args, mkAttr(a))
		}
	}
	switch cas.Pre {
	case "colliding-pairs":
		var pairs []any
		for _, own := range cas.Chain {
			for _, a := range own {
				pairs = append(pairs, a.K, "stale-call-site-value")
			}
		}
		for _, k := range cas.CtxKeys {
			pairs = append(pairs, k[2:], "stale-call-site-value")
		}
		pan = catch(func() {
			l.InfoContext(ctx, "pre", pairs...)
			l.Info("pre2", pairs...)
		})
		rec.reset()
	case "prior-records":
		other := slog.New("other").SetWriter(io.Discard).SetErrorWriter(io.Discard).SetLevel(slog.AlwaysLevel).SetAttrs(slog.NewAttr("x", 8), slog.NewAttr("y", 9))
		pan = catch(func() {
			l.Info("pre")
			other.Info("o", "p", 1, "q", 2)
			l.InfoContext(ctx, "pre2")
			other.Warn("o2", "r", 3, slog.NewGroupedAttr("og", slog.NewAttr("s", 4)))
		})
		rec.reset()
	case "groups-mutated":
		pan = catch(func() {
			l.InfoContext(ctx, "pre", args...)
			c07mutate(pend)
		})
		rec.reset()
	case "ancestors-completed-later":
		pan = catch(func() {
			l.InfoContext(ctx, "pre", args...)
			for i, lt := range later {
				if i%2 == 0 {
					lt.l.SetAttrs(lt.rest...)
				} else {
					lt.l.SetAttrs1(slog.Attrs(lt.rest))
				}
			}
		})
		rec.reset()
	}
	if pan != "" {
		return nil, "preamble: " + pan
	}
	pan = catch(func() { l.InfoContext(ctx, "m", args...) })
	for _, e := range rec.events {
		payloads = append(payloads, e.Payload)
	}
	return
}

func jsonToKVs(o *jsonx.Obj, skip map[string]bool) ([]kv, string) {
	var out []kv
	for i, k := range o.Keys {
		if skip[k] {
			continue
		}
		switch z := o.Vals[i].(type) {
		case *jsonx.Obj:
			m, e := jsonToKVs(z, nil)
			if e != "" {
				return nil, e
			}
			out = append(out, kv{K: k, G: m, IsG: true})
		case json.Number:
			n, err := strconv.Atoi(z.String())
			if err != nil {
				return nil, fmt.Sprintf("member %q: not an integer: %v", k, z)
			}
			out = append(out, kv{K: k, ID: n})
		default:
			return nil, fmt.Sprintf("member %q: unexpected JSON %T %v", k, z, z)
		}
	}
	return out, ""
}

func c07eval(cas c07case) *Violation {
	payloads, pan := c07emit(cas)
	want := refMerge(cas)
	mk := func(clause, detail string) *Violation {
		return mkViolation("", clause, detail+fmt.Sprintf(" [reference: %s]", kvsString(want)), cas)
	}
	if pan != "" {
		return mk("call-returns", "the call panicked: "+firstLine(pan))
	}
	if len(payloads) != 1 {
		return mk("one-write", fmt.Sprintf("%d Writes", len(payloads)))
	}
	p := payloads[0]
	var wantFlat [][2]string
	flattenKVs(want, "", &wantFlat)
	var gotFlat [][2]string
	switch cas.Format {
	case "json":
		obj, err := jsonx.DecodeLine([]byte(p))
		if err != nil {
			return mk("decodable", fmt.Sprintf("%v; payload %.300q", err, p))
		}
		got, e := jsonToKVs(obj, map[string]bool{"time": true, "logger": true, "level": true, "msg": true})
		if e != "" {
			return mk("decodable", e)
		}
		gs, ws := kvsString(got), kvsString(want)
		if gs != ws {
			return mk(c07classify(got, want), fmt.Sprintf("record has %s; payload %.300q", gs, p))
		}
		return nil
	case "logfmt":
		pairs, err := logfmt.ParseLine([]byte(p))
		if err != nil {
			return mk("decodable", fmt.Sprintf("%v; payload %.300q", err, p))
		}
		for _, pr := range pairs {
			switch pr.Key {
			case "time", "logger", "level", "msg":
				continue
			}
			gotFlat = append(gotFlat, [2]string{pr.Key, pr.Val})
		}
	default:
		text := slog.StripEscapes(p)
		i := strings.Index(text, "] m")
		if i < 0 || !strings.HasSuffix(text, "\n") {
			return mk("decodable", fmt.Sprintf("unexpected colored layout: %.200q", text))
		}
		for _, tok := range strings.Fields(text[i+3 : len(text)-1]) {
			eq := strings.IndexByte(tok, '=')
			if eq <= 0 {
				return mk("decodable", fmt.Sprintf("token %q is not key=value: %.300q", tok, text))
			}
			gotFlat = append(gotFlat, [2]string{tok[:eq], tok[eq+1:]})
		}
	}
	if fmt.Sprint(gotFlat) != fmt.Sprint(wantFlat) {
		return mk(c07classifyFlat(gotFlat, wantFlat), fmt.Sprintf("record has %v, reference %v; payload %.300q", gotFlat, wantFlat, p))
	}
	return nil
}

func c07classify(got, want []kv) string {
	var g, w [][2]string
	flattenKVs(got, "", &g)
	flattenKVs(want, "", &w)
	return c07classifyFlat(g, w)
}

// c07classifyFlat names the clause that fails: missing / extra / duplicate key,
// wrong winner, or order.
func c07classifyFlat(got, want [][2]string) string {
	gm, wm := map[string]string{}, map[string]string{}
	for _, x := range got {
		if _, dup := gm[x[0]]; dup {
			return "each-key-once"
		}
		gm[x[0]] = x[1]
	}
	for _, x := range want {
		wm[x[0]] = x[1]
	}
	for k := range wm {
		if _, ok := gm[k]; !ok {
			return "source-missing"
		}
	}
	for k := range gm {
		if _, ok := wm[k]; !ok {
			return "unexpected-attribute"
		}
	}
	for k, v := range wm {
		if gm[k] != v {
			return "last-occurrence-wins"
		}
	}
	return "ascending-order"
}

// ---------------------------------------------------------------- enumeration

func ownLists(depth int) [][]kv {
	b := 100 * (depth + 1)
	return [][]kv{
		nil,
		{{K: "a", ID: b + 1}},
		{{K: "a", ID: b + 1}, {K: "b", ID: b + 2}},
		{{K: "b", ID: b + 1}, {K: "a", ID: b + 2}, {K: "a", ID: b + 3}},
		{{K: "a", ID: b + 4}, {K: "b", ID: b + 1}, {K: "a", ID: b + 2}, {K: "a", ID: b + 3}},
		{{K: "g", IsG: true, G: []kv{{K: "y", ID: b + 1}, {K: "x", ID: b + 2}, {K: "x", ID: b + 3}}}},
	}
}

type callPattern struct {
	name string
	mk   func(n int) []kv
}

func callPatterns() []callPattern {
	id := func(i int) int { return 5000 + i }
	return []callPattern{
		{"distinct-descending", func(n int) []kv {
			var l []kv
			for i := 0; i < n; i++ {
				l = append(l, kv{K: fmt.Sprintf("c%02d", n-1-i), ID: id(i)})
			}
			return l
		}},
		{"all-one-key", func(n int) []kv {
			var l []kv
			for i := 0; i < n; i++ {
				l = append(l, kv{K: "k", ID: id(i)})
			}
			return l
		}},
		{"adjacent-pairs", func(n int) []kv {
			var l []kv
			for i := 0; i < n; i++ {
				l = append(l, kv{K: fmt.Sprintf("c%02d", i/2), ID: id(i)})
			}
			return l
		}},
		{"duplicates-far-apart", func(n int) []kv {
			var l []kv
			for i := 0; i < n; i++ {
				k := fmt.Sprintf("c%02d", i)
				if i == 0 || i == n-1 {
					k = "dup"
				}
				l = append(l, kv{K: k, ID: id(i)})
			}
			return l
		}},
		{"collide-with-logger-attr", func(n int) []kv {
			var l []kv
			for i := 0; i < n; i++ {
				k := fmt.Sprintf("c%02d", i)
				if i == n/2 {
					k = "a"
				}
				l = append(l, kv{K: k, ID: id(i)})
			}
			return l
		}},
		{"collide-with-ancestor-attr", func(n int) []kv {
			var l []kv
			for i := 0; i < n; i++ {
				k := fmt.Sprintf("c%02d", i)
				if i == 0 {
					k = "b"
				}
				l = append(l, kv{K: k, ID: id(i)})
			}
			return l
		}},
		{"collide-with-context-key", func(n int) []kv {
			var l []kv
			for i := 0; i < n; i++ {
				k := fmt.Sprintf("c%02d", i)
				if i == n-1 {
					k = "ctxs"
				}
				l = append(l, kv{K: k, ID: id(i)})
			}
			return l
		}},
		{"group-colliding-with-logger-group", func(n int) []kv {
			var l []kv
			for i := 0; i < n; i++ {
				if i == 0 {
					l = append(l, kv{K: "g", IsG: true, G: []kv{{K: "z", ID: id(100)}, {K: "y", ID: id(101)}, {K: "z", ID: id(102)}}})
					continue
				}
				l = append(l, kv{K: fmt.Sprintf("c%02d", i), ID: id(i)})
			}
			return l
		}},
	}
}

type ctxSet struct {
	keys, has []string
	nilCtx    bool
}

func ctxSets() []ctxSet {
	return []ctxSet{
		{},
		{keys: []string{"s:ctxs"}, has: []string{"s:ctxs"}},
		{keys: []string{"s:ctxs", "s:absent"}, has: []string{"s:ctxs", "s:unregistered"}},
		{keys: []string{"S:ctxS", "s:a", "x:other"}, has: []string{"S:ctxS", "s:a", "x:other"}},
		{keys: []string{"s:absent", "s:ctxs", "S:gone", "S:ctxS"}, has: []string{"s:ctxs", "S:ctxS"}},
		{keys: []string{"s:ctxs"}, has: nil, nilCtx: true},
		{keys: []string{"s:k6", "s:k5", "S:k4", "s:k3", "x:k2", "s:k1", "s:ctxs"}, has: []string{"s:k6", "s:k5", "S:k4", "s:k1", "s:ctxs", "x:k2"}},
		{keys: []string{"s:zero", "S:zero"}, has: []string{"s:zero", "S:zero"}},
		// a string key and a distinct Stringer key that print under the same name: both in the context (the later registered one
		// wins), and only the later registered one in the context (it is still a registered key)
		{keys: []string{"s:dup", "S:dup", "S:dup2", "s:dup2"}, has: []string{"s:dup", "S:dup", "s:dup2"}},
	}
}

func c07cases(thorough bool, emit func(c07case)) {
	maxDepth := 3
	sizes := []int{0, 1, 2, 3, 12, 13, 14, 17, 33, 80}
	if thorough {
		maxDepth = 4
		sizes = append(sizes, 64)
	}
	var chains [][][]kv
	var rec func(prefix [][]kv)
	rec = func(prefix [][]kv) {
		if len(prefix) > 0 {
			chains = append(chains, append([][]kv{}, prefix...))
		}
		if len(prefix) == maxDepth {
			return
		}
		for _, o := range ownLists(len(prefix)) {
			rec(append(prefix, o))
		}
	}
	rec(nil)
	pats := callPatterns()
	seq := 0
	for ci, ch := range chains {
		for _, n := range sizes {
			for _, pt := range pats {
				if n == 0 && pt.name != "distinct-descending" {
					continue
				}
				for si, cs := range ctxSets() {
					// the full cross product is used for short chains; for longer chains
					// the context sets rotate (every set still meets every chain shape class)
					if len(ch) >= 3 && !thorough && si != ci%9 {
						continue
					}
					for _, r := range []bool{false, true} {
						for _, f := range []string{"json", "logfmt", "color"} {
							cas := c07case{Chain: ch, Call: pt.mk(n), CtxKeys: cs.keys, CtxHas: cs.has, NilCtx: cs.nilCtx, AttrsR: r, Format: f, Pattern: pt.name}
							emit(cas)
							seq++
							if thorough || seq%3 == 0 || n == 0 {
								cas.Pre = []string{"prior-records", "ctx-keys-reset", "groups-mutated", "colliding-pairs", "attrs-in-steps", "ancestors-completed-later"}[(seq/3)%6]
								emit(cas)
							}
						}
					}
				}
			}
		}
	}
}

func c07min(cas c07case, clause string) c07case {
	still := func(c c07case) bool {
		v := c07eval(c)
		return v != nil && v.Clause == clause
	}
	for changed := true; changed; {
		changed = false
		for i := 0; i < len(cas.Call); i++ {
			c := cas
			c.Call = append(append([]kv{}, cas.Call[:i]...), cas.Call[i+1:]...)
			if still(c) {
				cas, changed = c, true
				i--
			}
		}
		for d := 0; d < len(cas.Chain); d++ {
			for i := 0; i < len(cas.Chain[d]); i++ {
				c := cas
				c.Chain = append([][]kv{}, cas.Chain...)
				c.Chain[d] = append(append([]kv{}, cas.Chain[d][:i]...), cas.Chain[d][i+1:]...)
				if still(c) {
					cas, changed = c, true
					i--
				}
			}
		}
		if len(cas.Chain) > 1 {
			c := cas
			c.Chain = cas.Chain[1:]
			if still(c) {
				cas, changed = c, true
			}
		}
		if len(cas.CtxKeys) > 0 {
			c := cas
			c.CtxKeys, c.CtxHas, c.NilCtx = nil, nil, false
			if still(c) {
				cas, changed = c, true
			}
		}
		if cas.AttrsR {
			c := cas
			c.AttrsR = false
			if still(c) {
				cas, changed = c, true
			}
		}
		if cas.Pre != "" {
			c := cas
			c.Pre = ""
			if still(c) {
				cas, changed = c, true
			}
		}
	}
	return cas
}

func c07evalMin(cas c07case) *Violation {
	v := c07eval(cas)
	if v == nil {
		return nil
	}
	m := c07min(cas, v.Clause)
	mv := c07eval(m)
	if mv == nil || mv.Clause != v.Clause {
		m, mv = cas, v
	}
	m.Pattern = ""
	var chain []string
	for _, l := range m.Chain {
		chain = append(chain, kvsString(l))
	}
	sig := fmt.Sprintf("C07|%s|%s|chain=%s call=%s ctx=%v/%v nilctx=%v inherit=%v pre=%s", mv.Clause, m.Format, strings.Join(chain, ">"), kvsString(m.Call), m.CtxKeys, m.CtxHas, m.NilCtx, m.AttrsR, m.Pre)
	if len(sig) > 400 {
		sig = sig[:400]
	}
	return mkViolation(sig, mv.Clause, mv.Detail, m)
}

func init() {
	register(&CheckDef{ID: "C07", Run: c07run, Replay: func(raw json.RawMessage) *Violation {
		var cas c07case
		if json.Unmarshal(raw, &cas) != nil || len(cas.Chain) == 0 {
			return nil
		}
		return c07evalMin(cas)
	}})
}

func c07run(c *Ctx) {
	c.Flag("exhaustive", true)
	n := 0
	c07cases(c.Thorough(), func(cas c07case) {
		n++
		if !c.Mine(n) {
			return
		}
		if c.Expired() {
			return
		}
		c.Count("evaluations", 1)
		if v := c07evalMin(cas); v != nil {
			c.Violate(v)
			return
		}
		c.Count("distinct_nontrivial", 1)
		c.Outcome(kvsString(refMerge(cas)) + cas.Format)
		if n%20011 == 0 {
			c.Sample(cas)
		}
	})
}
