package main

// C13 - failing destinations: bounded reaction, no lost records elsewhere,
// recovery. Shape F: every Write attempt of a short call sequence asks the
// explorer whether it fails; all assignments for short sequences, deviation
// bounded beyond.

import (
	"encoding/json"
	"errors"
	"fmt"
	"io"
	"io/fs"
	"log"
	logslog "log/slog"
	"os"
	"strings"
	"syscall"

	"github.com/hedzr/logg/slog"

	"verif/engine/sched"
	"verif/shim/vsync"
)

const c13Swell = slog.Level(19)

type c13attempt struct {
	W      string
	Call   int  // index of the call in flight
	Diag   bool // payload is the diagnostic warning
	Own    bool // payload is the call's own record
	Failed bool
	Whole  bool // payload complete (ends with newline)
}

var c13big = strings.Repeat(" 0123456789abcdef", 4100) // 69.7 KB

// c13errs is an error of a type that cannot be compared with == (comparing two of them panics).
type c13errs []string

func (e c13errs) Error() string { return strings.Join(e, "; ") }

// c13empty is an error with an empty text.
type c13empty struct{}

func (c13empty) Error() string { return "" }

type c13err struct{ w string }

func (e c13err) Error() string { return "custom failure on " + e.w }

type c13world struct {
	stdLeak  string // what reached the process's own stdout / stderr during the execution (no logger of the scenario writes there)
	nfail    int
	attempts []c13attempt
	call     int
	faults   bool
	perCall  map[string]int
	msgs     []string
}

type faultW struct {
	name string
	w    *c13world
}

// Sync: the destination has a Sync method (like *os.File on a terminal or a pipe, it answers EINVAL). Nothing in the
// statements makes the library call it; if it does, its answer is no failure of the record.
func (f *faultW) Sync() error { return syscall.EINVAL }

func (f *faultW) Write(p []byte) (int, error) {
	w := f.w
	w.perCall[f.name]++
	if w.perCall[f.name] > 32 {
		panic(sched.HorizonPanic{What: "writer " + f.name + " attempted more than 32 times within one call (cascade)"})
	}
	a := c13attempt{W: f.name, Call: w.call, Whole: strings.HasSuffix(string(p), "\n")}
	s := string(p)
	if strings.Contains(s, "slog print log failed") {
		a.Diag = true
	} else if w.call < len(w.msgs) && (strings.Contains(s, w.msgs[w.call]) || (w.msgs[w.call] == "" && s == "\n")) {
		a.Own = true
	}
	if w.faults && sched.Choose("fault:"+f.name, 2) == 1 {
		a.Failed = true
		w.attempts = append(w.attempts, a)
		// destinations fail with errors of different concrete types, some after a short write
		w.nfail++
		switch w.nfail % 13 {
		case 12: // a timeout (a destination with a write deadline), wrapped
			return 0, fmt.Errorf("write %s: %w", f.name, os.ErrDeadlineExceeded)
		case 9: // nothing taken and no error reported (a rate-limited or disconnected sink)
			return 0, nil
		case 10: // all but the last byte taken and no error reported
			return len(p) - 1, nil
		case 11: // an error whose text is empty
			return 0, c13empty{}
		case 7, 8: // two failures in a row with errors of the same uncomparable type
			return 0, c13errs{"uncomparable", f.name}
		case 4:
			return 0, os.ErrClosed
		case 5:
			return 0, &fs.PathError{Op: "write", Path: f.name, Err: os.ErrClosed}
		case 6:
			return 0, io.ErrClosedPipe
		case 0:
			return 0, errors.New("injected write failure on " + f.name)
		case 1:
			return len(p) / 2, &fs.PathError{Op: "write", Path: f.name, Err: syscall.ENOSPC}
		case 2:
			return 0, io.ErrShortWrite
		}
		return len(p) - 1, c13err{f.name}
	}
	w.attempts = append(w.attempts, a)
	return len(p), nil
}

type c13case struct {
	Config  int   `json:"config"`
	Level   int   `json:"logger_level"`
	Seq     []int `json:"calls"` // indices into c13classes
	Choices []int `json:"choices,omitempty"`
	Bound   int   `json:"bound"`
}

var c13configs = []string{"1 normal + 1 error writer", "2 normal + 2 error writers", "2+2 and a per-level writer for Info", "one writer in both the normal and the error list (+1 each)", "4 normal + 4 error writers", "a logger without writers of its own: the package-level default writer set (1 normal + 1 error writer)", "1 normal + 1 error writer, and in both lists a library file writer (NewFileWriter) that was closed: it fails every Write",
	"a front logger whose normal and error writer is the std-log bridge (NewLogLogger(back, Info).Writer()) into a back logger with 1 normal + 1 error writer: the calls are issued on the front logger"}

var c13classes = []struct {
	name string
	sev  slog.Level
}{
	{"Info", slog.InfoLevel}, {"Warn", slog.WarnLevel}, {"Error", slog.ErrorLevel}, {"blank Print (Always)", slog.AlwaysLevel}, {"custom error-device level", c13Swell}, {"Debug", slog.DebugLevel},
	// the bridged entry points (they reach the writers without passing through the verbs' common tail); in sequences only up to c13bridgedMaxLen calls
	{"Info through the std log bridge", slog.InfoLevel}, {"Error through a log/slog handler", slog.ErrorLevel},
}

const c13firstBridged = 6

type c13setup struct {
	closedFile bool // an always-failing closed file writer is a member of the normal and of the error list
	bridged    bool // configuration 7: every record of the front logger becomes an Info record of the back logger
	l          *slog.Entry
	std        *log.Logger
	hl         *logslog.Logger
	normal     []string
	errw       []string
	leveled    map[slog.Level][]string
}

func c13build(w *c13world, config int, level slog.Level) *c13setup {
	resetGlobals()
	slog.SetFlags((slog.LstdFlags | slog.LnoInterrupt) &^ slog.Lcaller)
	_ = slog.RegisterLevel(c13Swell, "swell19", slog.RegWithTreatedAsLevel(slog.ErrorLevel), slog.RegWithPrintToErrorDevice(true))
	mk := func(n string) *faultW { return &faultW{n, w} }
	st := &c13setup{leveled: map[slog.Level][]string{}}
	l := slog.VerifEntryOf(slog.New("f"))
	switch config {
	case 0:
		l.SetWriter(mk("n1")).SetErrorWriter(mk("e1"))
		st.normal, st.errw = []string{"n1"}, []string{"e1"}
	case 1, 2:
		l.SetWriter(mk("n1")).AddWriter(mk("n2")).SetErrorWriter(mk("e1")).AddErrorWriter(mk("e2"))
		st.normal, st.errw = []string{"n1", "n2"}, []string{"e1", "e2"}
		if config == 2 {
			l.AddLevelWriter(slog.InfoLevel, mk("li"))
			st.leveled[slog.InfoLevel] = []string{"li"}
		}
	case 4:
		l.SetWriter(mk("n1")).AddWriter(mk("n2")).AddWriter(mk("n3")).AddWriter(mk("n4"))
		l.SetErrorWriter(mk("e1")).AddErrorWriter(mk("e2")).AddErrorWriter(mk("e3")).AddErrorWriter(mk("e4"))
		st.normal, st.errw = []string{"n1", "n2", "n3", "n4"}, []string{"e1", "e2", "e3", "e4"}
	case 5:
		// the logger falls back to the package-level default destinations, given through the exported methods of the default writer set
		if dw, ok := slog.GetDefaultWriter().(interface {
			SetWriter(io.Writer)
			SetErrorWriter(io.Writer)
		}); ok {
			dw.SetWriter(mk("n1"))
			dw.SetErrorWriter(mk("e1"))
			st.normal, st.errw = []string{"n1"}, []string{"e1"}
		} else {
			l.SetWriter(mk("n1")).SetErrorWriter(mk("e1")) // the default set is not reachable this way: same as configuration 0
			st.normal, st.errw = []string{"n1"}, []string{"e1"}
		}
	case 6:
		l.SetWriter(mk("n1")).SetErrorWriter(mk("e1"))
		st.normal, st.errw = []string{"n1"}, []string{"e1"}
		if f, err := os.CreateTemp("", "verif-c13-closed-*"); err == nil {
			name := f.Name()
			f.Close()
			fw := slog.NewFileWriter(name)
			_ = fw.Close()
			os.Remove(name)
			l.AddWriter(fw).AddErrorWriter(fw)
			st.closedFile = true
		}
	case 7:
		back := slog.VerifEntryOf(slog.New("back"))
		back.SetWriter(mk("n1")).SetErrorWriter(mk("e1")).SetLevel(slog.TraceLevel).SetColorMode(false)
		bridge := slog.NewLogLogger(back, slog.InfoLevel).Writer()
		l.SetWriter(bridge).SetErrorWriter(bridge)
		st.normal, st.errw = []string{"n1"}, []string{"n1"} // whatever its class on the front logger, a record arrives as an Info record of the back logger
		st.bridged = true
	case 3:
		sh := mk("shared")
		l.SetWriter(sh).AddWriter(mk("n2")).SetErrorWriter(sh).AddErrorWriter(mk("e2"))
		st.normal, st.errw = []string{"shared", "n2"}, []string{"shared", "e2"}
	}
	st.hl = logslog.New(slog.NewSlogHandler(l, &slog.HandlerOptions{NoColor: true, NoSource: true}))
	l.SetLevel(level)
	slog.VerifRestoreModes(false, false)
	l.SetColorMode(false)
	st.l = l
	st.std = slog.NewLogLogger(l, slog.InfoLevel)
	return st
}

func (st *c13setup) selected(sev slog.Level) []string {
	if v := st.leveled[sev]; len(v) > 0 {
		return v
	}
	if refErrorClass(sev, map[slog.Level]bool{c13Swell: true}) {
		return st.errw
	}
	return st.normal
}

func c13issue(st *c13setup, class int, msg string) {
	l := st.l
	switch class {
	case 6:
		st.std.Print(msg)
	case 7:
		st.hl.Error(msg, "k", 1)
	case 0:
		l.Info(msg, "k", 1)
	case 1:
		l.Warn(msg, "k", 1)
	case 2:
		l.Error(msg, "k", 1)
	case 3:
		l.Println()
	case 4:
		l.LogAttrs(bg, c13Swell, msg, "k", 1)
	case 5:
		l.Debug(msg, "k", 1)
	}
}

// c13check evaluates one finished execution.
func c13check(cas c13case, w *c13world, st *c13setup, x *sched.Execution, level slog.Level) (clause, detail string) {
	if x.Horizon {
		return "no-cascade", "a writer was attempted more than 32 times within one call: " + firstLine(x.Panics[0])
	}
	if x.Panics[0] != "" {
		return "call-returns", "a logging call panicked: " + firstLine(x.Panics[0])
	}
	if w.stdLeak != "" {
		return "diagnostic-destination", fmt.Sprintf("something was written to the process's own stdout/stderr, where no logger of the scenario writes: %.300q", w.stdLeak)
	}
	customs := map[slog.Level]slog.Level{c13Swell: slog.ErrorLevel}
	warnAdmitted, _ := refAdmit(level, slog.WarnLevel, false, customs)
	warnSel := st.selected(slog.WarnLevel)
	if st.bridged {
		// the write fails in the back logger (level Trace): its diagnostic goes to its own warning destination
		warnAdmitted, warnSel = true, []string{"e1"}
	}
	ncalls := len(cas.Seq) + len(c13classes) // the sequence + the fault-free probes
	for ci := 0; ci < ncalls; ci++ {
		var sev slog.Level
		probe := ci >= len(cas.Seq)
		if probe {
			sev = c13classes[ci-len(cas.Seq)].sev
		} else {
			sev = c13classes[cas.Seq[ci]].sev
		}
		admitted, _ := refAdmit(level, sev, false, customs)
		sel := st.selected(sev)
		if st.bridged && sev == slog.AlwaysLevel {
			continue // a blank Print does not cross the bridge as a bare newline: not issued in this configuration
		}
		own := map[string]int{}
		anyFailed := false
		diagPerWriter := map[string]int{}
		for _, a := range w.attempts {
			if a.Call != ci {
				continue
			}
			switch {
			case a.Own:
				own[a.W]++
				if a.Failed {
					anyFailed = true
				}
				if !a.Whole {
					return "whole-record", fmt.Sprintf("call %d: destination %s was handed an incomplete record", ci, a.W)
				}
			case a.Diag:
				diagPerWriter[a.W]++
			default:
				return "only-own-or-diagnostic", fmt.Sprintf("call %d: destination %s received a payload that is neither the call's record nor the diagnostic", ci, a.W)
			}
		}
		if st.closedFile && admitted {
			anyFailed = true // the closed file writer is selected for every record and fails
		}
		what := "call"
		if probe {
			what = "fault-free probe"
		}
		if !admitted {
			if len(own) > 0 || len(diagPerWriter) > 0 {
				return "not-admitted-silent", fmt.Sprintf("%s %d (%s) is not admitted but something was written", what, ci, levelName(sev))
			}
			continue
		}
		// every selected destination was offered the whole record exactly once, whatever happened to the others
		want := map[string]int{}
		for _, n := range sel {
			want[n]++
		}
		for n, k := range want {
			if own[n] != k {
				clause := "others-still-receive"
				if probe {
					clause = "recovery"
				}
				return clause, fmt.Sprintf("%s %d (%s): selected destination %s saw the record %d time(s), expected %d (selected %v)", what, ci, levelName(sev), n, own[n], k, sel)
			}
		}
		for n := range own {
			if want[n] == 0 {
				return "only-selected", fmt.Sprintf("%s %d (%s): destination %s is not selected but received the record", what, ci, levelName(sev), n)
			}
		}
		// diagnostics
		maxDiag := 0
		if anyFailed && (sev != slog.WarnLevel || st.bridged) && warnAdmitted {
			maxDiag = 1 // (bridged: the record that fails is the back logger's Info record, whatever it was on the front logger)
		}
		wsel := map[string]int{}
		for _, n := range warnSel {
			wsel[n]++
		}
		for n, k := range diagPerWriter {
			if wsel[n] == 0 {
				return "diagnostic-destination", fmt.Sprintf("%s %d: diagnostic sent to %s, which is not a warning destination %v", what, ci, n, warnSel)
			}
			if k > maxDiag*wsel[n] {
				return "at-most-one-diagnostic", fmt.Sprintf("%s %d (%s, a write failed: %v): destination %s received %d diagnostic record(s), at most %d allowed", what, ci, levelName(sev), anyFailed, n, k, maxDiag*wsel[n])
			}
		}
	}
	return "", ""
}

func c13runOne(cas c13case, prefix []int) (*sched.Execution, *c13world, *c13setup) {
	w := &c13world{perCall: map[string]int{}}
	// which error type the first failure has rotates with the case, so that every type is also a first failure
	w.nfail = cas.Config + cas.Level + len(cas.Seq)
	for _, c := range cas.Seq {
		w.nfail += c
	}
	level := slog.Level(cas.Level)
	var st *c13setup
	body := func() {
		st = c13build(w, cas.Config, level)
		w.faults = true
		for i, c := range cas.Seq {
			w.call = i
			w.perCall = map[string]int{}
			msg := fmt.Sprintf("call-%d-msg", i)
			if i == 0 && cas.Config%2 == 1 {
				msg += c13big // a record of more than 64 KiB is still one Write per destination and one diagnostic at most
			}
			if c == 3 {
				msg = ""
			}
			w.msgs = append(w.msgs, msg)
			if st.bridged && c == 3 {
				continue
			}
			c13issue(st, c, msg)
		}
		// recovery: the destinations work again
		w.faults = false
		for j := range c13classes {
			w.call = len(cas.Seq) + j
			w.perCall = map[string]int{}
			msg := fmt.Sprintf("probe-%d-msg", j)
			if j == 3 {
				msg = ""
			}
			w.msgs = append(w.msgs, msg)
			if st.bridged && j == 3 {
				continue
			}
			c13issue(st, j, msg)
		}
	}
	vsync.NoPoolChoice = true
	defer func() { vsync.NoPoolChoice = false }()
	so0, se0 := fileSize(stdoutFile), fileSize(stderrFile)
	x := sched.Execute(prefix, 100000, []func(){body})
	if so1 := fileSize(stdoutFile); so1 > so0 {
		w.stdLeak += "stdout: " + readFrom(stdoutFile, so0)
	}
	if se1 := fileSize(stderrFile); se1 > se0 {
		w.stdLeak += "stderr: " + readFrom(stderrFile, se0)
	}
	return x, w, st
}

func init() {
	register(&CheckDef{ID: "C13", Run: c13run, Replay: func(raw json.RawMessage) *Violation {
		var cas c13case
		if json.Unmarshal(raw, &cas) != nil {
			return nil
		}
		x, w, st := c13runOne(cas, cas.Choices)
		x2, w2, _ := c13runOne(cas, cas.Choices)
		if fmt.Sprint(w.attempts) != fmt.Sprint(w2.attempts) || fmt.Sprint(x.Choices()) != fmt.Sprint(x2.Choices()) {
			return nil // not deterministic: never reported
		}
		cl, d := c13check(cas, w, st, x, slog.Level(cas.Level))
		if cl == "" {
			return nil
		}
		return c13violation(cas, x, cl, d)
	}})
}

func c13violation(cas c13case, x *sched.Execution, clause, detail string) *Violation {
	cc := cas
	cc.Choices = x.Choices()
	var seq []string
	for _, c := range cas.Seq {
		seq = append(seq, c13classes[c].name)
	}
	var fails []string
	for i, p := range x.Points {
		if p.Chosen == 1 {
			fails = append(fails, fmt.Sprintf("#%d %s", i, strings.TrimPrefix(p.Kind, "env:fault:")))
		}
	}
	sig := fmt.Sprintf("C13|%s|config=%d|level=%s|calls=%s|failed=%s", clause, cas.Config, levelName(slog.Level(cas.Level)), strings.Join(seq, ","), strings.Join(fails, ","))
	return mkViolation(sig, clause, detail+fmt.Sprintf(" [%s; logger level %s; calls %v; failing write attempts: %v]", c13configs[cas.Config], levelName(slog.Level(cas.Level)), seq, fails), cc)
}

func c13run(c *Ctx) {
	c.Flag("exhaustive", true)
	maxLen, fullLen := 3, 2 // sequences up to maxLen; every assignment (unbounded) up to fullLen calls
	bound := 3
	if c.Thorough() {
		maxLen, fullLen = 4, 3
		bound = 4
	}
	var seqs [][]int
	var rec func(p []int)
	rec = func(p []int) {
		if len(p) > 0 {
			seqs = append(seqs, append([]int{}, p...))
		}
		if len(p) == maxLen {
			return
		}
		for i := range c13classes {
			if i >= c13firstBridged || len(p) > 0 && p[0] >= c13firstBridged {
				// sequences with a bridged call: the bridged call comes first, and they are one call shorter
				if len(p) > 0 && p[0] < c13firstBridged || len(p) >= maxLen-1 {
					continue
				}
			}
			rec(append(p, i))
		}
	}
	rec(nil)
	n := 0
	maxPoints := 0
	testMode := slog.VerifInTesting()
	c.Info("go_test_mode", testMode)
	for cfg := range c13configs {
		for _, lv := range []slog.Level{slog.ErrorLevel, slog.WarnLevel, slog.InfoLevel, slog.TraceLevel} {
			if testMode && (cfg != 0 && cfg != 1 && cfg != 7 || lv != slog.InfoLevel && lv != slog.TraceLevel) {
				continue // the go-test-mode pass (the diagnostic carries a multi-line error dump there): three configurations, two levels
			}
			for _, seq := range seqs {
				if cfg == 7 {
					skip := false
					for _, cl := range seq {
						if cl == 3 {
							skip = true
						}
					}
					if skip {
						continue
					}
				}
				n++
				if !c.Mine(n) || c.Expired() {
					continue
				}
				cas := c13case{Config: cfg, Level: int(lv), Seq: seq, Bound: bound}
				b := bound
				if cfg == 4 {
					// the wide configuration: deviation-bounded only, shorter sequences
					if len(seq) > maxLen-1 {
						continue
					}
				} else if len(seq) <= fullLen {
					b = -1 // all 2^n assignments
					cas.Bound = -1
				}
				c13dfs(c, cas, b, &maxPoints)
			}
		}
	}
	c.Max("max_fault_points_in_one_execution", int64(maxPoints))
	c.Info("deviation_bound_for_longer_sequences", bound)
	c.Info("sequences", len(seqs))
	c.Assume("a destination 'receives the record' when Write is called with it; whether a failing Write stored part of it is the destination's business")
}

// c13dfs is the deviation-bounded DFS over fault assignments for one case.
func c13dfs(c *Ctx, cas c13case, bound int, maxPoints *int) {
	var explore func(prefix []int) bool
	explore = func(prefix []int) bool {
		x, w, st := c13runOne(cas, prefix)
		c.Count("evaluations", 1)
		c.Count("transitions", int64(len(x.Points)))
		if x.Diverged != "" {
			c.Note("replay divergence (internal): " + x.Diverged)
			c.Flag("exhaustive", false)
			return true
		}
		if len(x.Points) > *maxPoints {
			*maxPoints = len(x.Points)
		}
		if cl, d := c13check(cas, w, st, x, slog.Level(cas.Level)); cl != "" {
			c.Violate(c13violation(cas, x, cl, d))
			if c.stop {
				return false
			}
		} else {
			c.Count("distinct_nontrivial", 1)
			var sb strings.Builder
			for _, a := range w.attempts {
				fmt.Fprintf(&sb, "%s%v%v%v;", a.W, a.Own, a.Diag, a.Failed)
			}
			c.Outcome(sb.String())
			if len(prefix) == 2 && prefix[1] == 1 {
				c.Sample(map[string]any{"config": c13configs[cas.Config], "calls": cas.Seq, "fault_choices": x.Choices()})
			}
		}
		for i := len(prefix); i < len(x.Points); i++ {
			cost := x.Cost(i) + 1
			if bound >= 0 && cost > bound {
				continue
			}
			np := append(append(make([]int, 0, i+1), x.Choices()[:i]...), 1)
			if !explore(np) {
				return false
			}
		}
		return true
	}
	explore(nil)
}
