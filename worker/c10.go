package main

// C10 - logger hierarchy: lookup by name, inheritance at creation, isolation
// afterwards. Shape H: BFS over a pure reference model of the logger tree; every
// model transition is replayed on real loggers and the full private state of
// every logger in the tree is compared with the model after every step.

import (
	"os"
	"encoding/json"
	"fmt"
	"io"
	"sort"
	"strings"
	"time"

	"github.com/hedzr/logg/slog"

	"verif/oracle/jsonx"
)

const c10maxLoggers = 5

type c10op struct {
	Kind   string `json:"kind"`
	Target int    `json:"target"`
}

type mLogger struct {
	Name     string
	Anon     bool
	Parent   int
	Children []int
	Level    int
	JSON     bool
	Color    bool
	UTC      int
	Layout   string
	Attrs    []string
	Skip     int
	CtxKeys  []string
	HasW     bool
	Normal   []string
	Error    []string
	VS       bool
}

type mWorld struct {
	L            []mLogger
	DefaultLevel int // package-level current level (new detached loggers start with it)
	Debug        bool
	DefaultIdx   int // index of the package default logger in L, -1 if not part of the world
	anonCount    int
}

func (w mWorld) clone() mWorld {
	n := w
	n.L = make([]mLogger, len(w.L))
	for i, l := range w.L {
		n.L[i] = l
		n.L[i].Children = append([]int{}, l.Children...)
		n.L[i].Attrs = append([]string{}, l.Attrs...)
		n.L[i].CtxKeys = append([]string{}, l.CtxKeys...)
		n.L[i].Normal = append([]string{}, l.Normal...)
		n.L[i].Error = append([]string{}, l.Error...)
	}
	return n
}

func (w mWorld) key() string {
	var sb strings.Builder
	fmt.Fprintf(&sb, "def=%d dbg=%v di=%d|", w.DefaultLevel, w.Debug, w.DefaultIdx)
	for i, l := range w.L {
		fmt.Fprintf(&sb, "%d:%+v|", i, l)
	}
	return sb.String()
}

var c10creationKinds = []string{"New(a)", "New(b)", "New()", "New(n1,WithLevel(Info))", "New(n2,WithJSONMode())", "New(n3,k,1,Attr)", "New(<name of first anonymous child>)"}
var c10withKinds = []string{"WithLevel(Error)", "WithJSONMode()", "WithColorMode(false)", "WithUTCMode()", "WithTimeFormat(2006)", "WithAttrs(wa)", "WithAttrs1(w1,w2)", "With(wk,2)",
	"WithSkip(1)", "WithSkip(2)", "WithContextKeys(ck)", "WithWriter(w1)", "WithErrorWriter(w2)", "WithValueStringer"}
var c10setKinds = []string{"SetLevel(Error)", "SetLevel(Info)", "SetLevel(Debug)", "SetJSONMode()", "SetColorMode(false)", "SetColorMode(true)", "SetUTCMode(false)", "SetTimeFormat()", "SetAttrs(sa)", "SetAttrs1(s1)", "Set(sk,3)",
	"SetSkip(3)", "SetContextKeys(c2)", "SetWriter(w1)", "SetErrorWriter(w2)", "SetValueStringer", "AddWriter(w2)",
	// operations that are no setters: the logger is installed as the package default; the logger is closed ("reserved for future")
	"slog.SetDefault(it)", "Close()"}
var c10globalKinds = []string{"slog.SetLevel(Info)", "slog.New(r2)"}

func (w mWorld) firstAnonChild(t int) int {
	for _, c := range w.L[t].Children {
		if w.L[c].Anon && !strings.HasPrefix(w.L[c].Name, "c/") {
			return c
		}
	}
	return -1
}

var c10reducedSkip = map[string]bool{"SetLevel(Error)": true, "SetColorMode(true)": true, "SetAttrs1(s1)": true, "SetErrorWriter(w2)": true, "SetTimeFormat()": true, "SetValueStringer": true, "AddWriter(w2)": true,
	"New(b)": true, "New(n2,WithJSONMode())": true, "WithColorMode(false)": true, "WithTimeFormat(2006)": true, "WithAttrs1(w1,w2)": true, "With(wk,2)": true, "WithErrorWriter(w2)": true,
	"WithValueStringer": true, "WithUTCMode()": true}

var c10small = map[string]bool{"slog.SetDefault(it)": true, "Close()": true, "SetLevel(Info)": true, "New(a)": true, "New(b)": true, "New()": true, "New(<name of first anonymous child>)": true, "WithSkip(1)": true, "WithLevel(Error)": true,
	"SetLevel(Error)": true, "SetAttrs(sa)": true, "SetWriter(w1)": true, "SetJSONMode()": true, "slog.SetLevel(Info)": true}

var c10structure = map[string]bool{"New(a)": true, "New()": true, "New(<name of first anonymous child>)": true, "WithSkip(1)": true, "SetLevel(Error)": true}

var c10attrOps = map[string]bool{"SetAttrs(sa)": true, "SetAttrs1(s1)": true, "Set(sk,3)": true, "WithAttrs1(w1,w2)": true, "WithAttrs(wa)": true, "New(n3,k,1,Attr)": true, "New(a)": true}

// alphabet levels: 0 full, 1 reduced, 2 small, 3 structure only, 4 attribute operations
func c10allowed(level int, kind string) bool {
	switch level {
	case 4:
		return c10attrOps[kind]
	case 0:
		return true
	case 1:
		return !c10reducedSkip[kind]
	case 2:
		return c10small[kind]
	}
	return c10structure[kind]
}

func (w mWorld) ops(level int) []c10op {
	var ops []c10op
	for t := range w.L {
		for _, k := range c10setKinds {
			if c10allowed(level, k) {
				ops = append(ops, c10op{k, t})
			}
		}
		if len(w.L) < c10maxLoggers {
			for _, k := range c10creationKinds {
				if k == "New(<name of first anonymous child>)" && w.firstAnonChild(t) < 0 {
					continue
				}
				if c10allowed(level, k) {
					ops = append(ops, c10op{k, t})
				}
			}
			for _, k := range c10withKinds {
				if c10allowed(level, k) {
					ops = append(ops, c10op{k, t})
				}
			}
		}
	}
	if c10allowed(level, "slog.SetLevel(Info)") {
		ops = append(ops, c10op{"slog.SetLevel(Info)", -1})
	}
	if len(w.L) < c10maxLoggers && c10allowed(level, "slog.New(r2)") {
		ops = append(ops, c10op{"slog.New(r2)", -1})
	}
	return ops
}

func (w *mWorld) childByName(t int, name string) int {
	for _, c := range w.L[t].Children {
		if w.L[c].Name == name {
			return c
		}
	}
	return -1
}

func (w *mWorld) addChild(t int, name string) int {
	p := w.L[t]
	c := mLogger{Name: name, Parent: t, Level: p.Level, JSON: p.JSON, Color: p.Color}
	if name == "" {
		w.anonCount++
		c.Name = fmt.Sprintf("anon#%d", w.anonCount)
		c.Anon = true
	}
	w.L = append(w.L, c)
	idx := len(w.L) - 1
	w.L[t].Children = append(w.L[t].Children, idx)
	return idx
}

func (w *mWorld) setLevel(i, lvl int) {
	w.L[i].Level = lvl
	if lvl == int(slog.DebugLevel) {
		w.Debug = true
	}
	if i == w.DefaultIdx && false {
		w.DefaultLevel = lvl
	}
}

func (w *mWorld) materializeWriter(i int) {
	if !w.L[i].HasW {
		w.L[i].HasW = true
		w.L[i].Normal = []string{"stdout"}
		w.L[i].Error = []string{"stderr"}
	}
}

// applySetting applies the setting named by a With*/Set*/option kind to logger i.
func (w *mWorld) applySetting(i int, kind string) {
	l := &w.L[i]
	switch kind {
	case "Level(Error)":
		w.setLevel(i, int(slog.ErrorLevel))
	case "Level(Info)":
		w.setLevel(i, int(slog.InfoLevel))
	case "Level(Debug)":
		w.setLevel(i, int(slog.DebugLevel))
	case "JSONMode()":
		l.JSON, l.Color = true, false
	case "ColorMode(false)":
		l.JSON, l.Color = false, false
	case "ColorMode(true)":
		l.JSON, l.Color = false, true
	case "UTCMode()":
		l.UTC = 2
	case "UTCMode(false)":
		l.UTC = 1
	case "TimeFormat(2006)":
		l.Layout = "2006"
	case "TimeFormat()":
		l.Layout = time.RFC3339Nano
	case "Attrs(wa)":
		l.Attrs = append(l.Attrs, "wa=1")
	case "Attrs1(w1,w2)":
		l.Attrs = append(l.Attrs, "w1=1", "w2=x")
	case "(wk,2)":
		l.Attrs = append(l.Attrs, "wk=2")
	case "Attrs(sa)":
		l.Attrs = append(l.Attrs, "sa=1")
	case "Attrs1(s1)":
		l.Attrs = append(l.Attrs, "s1=true")
	case "(sk,3)":
		l.Attrs = append(l.Attrs, "sk=3")
	case "Skip(3)":
		l.Skip = 3
	case "ContextKeys(ck)":
		l.CtxKeys = append(l.CtxKeys, "ck")
	case "ContextKeys(c2)":
		l.CtxKeys = append(l.CtxKeys, "c2")
	case "Writer(w1)":
		w.materializeWriter(i)
		w.L[i].Normal = []string{"w1"}
	case "ErrorWriter(w2)":
		w.materializeWriter(i)
		w.L[i].Error = []string{"w2"}
	case "AddWriter(w2)":
		w.materializeWriter(i)
		w.L[i].Normal = append(w.L[i].Normal, "w2")
	case "ValueStringer":
		l.VS = true
	default:
		panic("unknown setting " + kind)
	}
}

// modelApply is the pure reference transition; it returns the successor and
// the index of the logger the operation returns (-1: nothing / not a logger).
// alt is a second acceptable successor (or nil): New(name, options) on an
// existing child may either ignore or apply the options - the statement is silent.
func (w mWorld) modelApply(o c10op) (n mWorld, ret int, alt *mWorld) {
	n = w.clone()
	t := o.Target
	switch {
	case o.Kind == "slog.SetLevel(Info)":
		n.DefaultLevel = int(slog.InfoLevel)
		if n.DefaultIdx >= 0 {
			n.L[n.DefaultIdx].Level = int(slog.InfoLevel)
		}
		return n, -1, nil
	case o.Kind == "slog.New(r2)":
		n.L = append(n.L, mLogger{Name: "r2", Parent: -1, Level: n.DefaultLevel, Color: true})
		return n, len(n.L) - 1, nil
	case strings.HasPrefix(o.Kind, "New("):
		var name string
		var setting []string
		switch o.Kind {
		case "New(a)":
			name = "a"
		case "New(b)":
			name = "b"
		case "New()":
			name = ""
		case "New(n1,WithLevel(Info))":
			name, setting = "n1", []string{"Level(Info)"}
		case "New(n2,WithJSONMode())":
			name, setting = "n2", []string{"JSONMode()"}
		case "New(n3,k,1,Attr)":
			name = "n3"
		case "New(<name of first anonymous child>)":
			c := w.firstAnonChild(t)
			return n, c, nil // must return that very child, nothing changes
		}
		if name != "" {
			if c := n.childByName(t, name); c >= 0 {
				if len(setting) > 0 || o.Kind == "New(n3,k,1,Attr)" {
					a := n.clone()
					for _, s := range setting {
						a.applySetting(c, s)
					}
					if o.Kind == "New(n3,k,1,Attr)" {
						a.L[c].Attrs = append(a.L[c].Attrs, "k=1", "x=2")
					}
					return n, c, &a
				}
				return n, c, nil
			}
		}
		c := n.addChild(t, name)
		for _, s := range setting {
			n.applySetting(c, s)
		}
		if o.Kind == "New(n3,k,1,Attr)" {
			n.L[c].Attrs = append(n.L[c].Attrs, "k=1", "x=2")
		}
		return n, c, nil
	case strings.HasPrefix(o.Kind, "WithSkip("):
		k := 1
		if o.Kind == "WithSkip(2)" {
			k = 2
		}
		name := fmt.Sprintf("c/%s[%d]", w.L[t].Name, k)
		c := n.childByName(t, name)
		if c < 0 {
			c = n.addChild(t, name)
			n.L[c].Anon = w.L[t].Anon // the name embeds the parent's (possibly random) name
		}
		n.L[c].Skip = k
		return n, c, nil
	case strings.HasPrefix(o.Kind, "With"):
		c := n.addChild(t, "")
		n.applySetting(c, strings.TrimPrefix(o.Kind, "With"))
		return n, c, nil
	case o.Kind == "AddWriter(w2)":
		n.applySetting(t, "AddWriter(w2)")
		return n, t, nil
	case o.Kind == "slog.SetDefault(it)":
		n.DefaultIdx = t // nothing else changes: not the logger, not the package level, not the other loggers
		return n, -1, nil
	case o.Kind == "Close()":
		return n, -1, nil
	case strings.HasPrefix(o.Kind, "Set"):
		n.applySetting(t, strings.TrimPrefix(o.Kind, "Set"))
		if o.Kind == "SetSkip(3)" {
			return n, -1, nil
		}
		return n, t, nil
	}
	panic("unknown op " + o.Kind)
}

// ---------------------------------------------------------------- implementation side

type c10vs struct{}

func (c10vs) SetWriter(w io.Writer) {}
func (c10vs) WriteValue(v any)      {}

type c10world struct {
	shared1            slog.Attrs  // the ONE caller-owned Attrs value (len 1, spare capacity) handed to every SetAttrs1(s1)
	sharedW            slog.Attrs  // same for WithAttrs1(w1,w2)
	sharedSA, sharedWA []slog.Attr // the variadic slices handed to SetAttrs(sa...) / WithAttrs(wa...)
	L                  []*slog.Entry
	rec                *recorder
	w1                 io.Writer
	w2                 io.Writer
	vs                 slog.ValueStringer
}

var c10rootNames = []string{"detached anonymous slog.New()", "slog.New(root, WithLevel(Info))", "slog.Default()", "root and child both given the same caller-owned Attrs value"}

func c10newWorld(root int) (*c10world, mWorld) {
	resetGlobals()
	slog.SetFlags(slog.LstdFlags &^ slog.Lcaller)
	iw := &c10world{rec: &recorder{}, vs: c10vs{}}
	iw.shared1 = append(make(slog.Attrs, 0, 8), slog.NewAttr("s1", true))
	iw.sharedW = append(make(slog.Attrs, 0, 8), slog.NewAttr("w1", 1), slog.NewAttr("w2", "x"))
	iw.sharedSA = append(make([]slog.Attr, 0, 8), slog.NewAttr("sa", 1))
	iw.sharedWA = append(make([]slog.Attr, 0, 8), slog.NewAttr("wa", 1))
	iw.w1 = &plainW{"w1", iw.rec}
	iw.w2 = &closerW{plainW: plainW{"w2", iw.rec}}
	m := mWorld{DefaultLevel: int(slog.GetLevel()), DefaultIdx: -1}
	switch root {
	case 0:
		iw.L = []*slog.Entry{slog.VerifEntryOf(slog.New())}
		m.L = []mLogger{{Name: "", Parent: -1, Level: m.DefaultLevel, Color: true}}
	case 1:
		iw.L = []*slog.Entry{slog.VerifEntryOf(slog.New("root", slog.WithLevel(slog.InfoLevel)))}
		m.L = []mLogger{{Name: "root", Parent: -1, Level: int(slog.InfoLevel), Color: true}}
	case 2:
		iw.L = []*slog.Entry{slog.VerifEntryOf(slog.Default())}
		m.L = []mLogger{{Name: "", Parent: -1, Level: m.DefaultLevel, Color: true}}
		m.DefaultIdx = 0
	case 3:
		// two loggers that were both handed the same caller-owned Attrs value
		r := slog.VerifEntryOf(slog.New("root"))
		r.SetAttrs1(iw.shared1)
		ch := r.New("a")
		ch.SetAttrs1(iw.shared1)
		iw.L = []*slog.Entry{r, ch}
		m.L = []mLogger{{Name: "root", Parent: -1, Level: m.DefaultLevel, Color: true, Attrs: []string{"s1=true"}, Children: []int{1}},
			{Name: "a", Parent: 0, Level: m.DefaultLevel, Color: true, Attrs: []string{"s1=true"}}}
	}
	return iw, m
}

func (iw *c10world) apply(o c10op, m mWorld) (ret *slog.Entry, hasRet bool, pan string) {
	pan = catch(func() {
		if o.Kind == "slog.SetLevel(Info)" {
			slog.SetLevel(slog.InfoLevel)
			return
		}
		if o.Kind == "slog.New(r2)" {
			ret, hasRet = slog.VerifEntryOf(slog.New("r2")), true
			return
		}
		l := iw.L[o.Target]
		hasRet = true
		switch o.Kind {
		case "New(a)":
			ret = l.New("a")
		case "New(b)":
			ret = l.New("b")
		case "New()":
			ret = l.New()
		case "New(n1,WithLevel(Info))":
			ret = l.New("n1", slog.WithLevel(slog.InfoLevel))
		case "New(n2,WithJSONMode())":
			ret = l.New("n2", slog.WithJSONMode())
		case "New(n3,k,1,Attr)":
			ret = l.New("n3", "k", 1, slog.NewAttr("x", 2))
		case "New(<name of first anonymous child>)":
			c := m.firstAnonChild(o.Target)
			ret = l.New(iw.L[c].Name())
		case "WithLevel(Error)":
			ret = l.WithLevel(slog.ErrorLevel)
		case "WithJSONMode()":
			ret = l.WithJSONMode()
		case "WithColorMode(false)":
			ret = l.WithColorMode(false)
		case "WithUTCMode()":
			ret = l.WithUTCMode()
		case "WithTimeFormat(2006)":
			ret = l.WithTimeFormat("2006")
		case "WithAttrs(wa)":
			ret = l.WithAttrs(iw.sharedWA...)
		case "WithAttrs1(w1,w2)":
			ret = l.WithAttrs1(iw.sharedW)
		case "With(wk,2)":
			ret = l.With("wk", 2)
		case "WithSkip(1)":
			ret = l.WithSkip(1)
		case "WithSkip(2)":
			ret = l.WithSkip(2)
		case "WithContextKeys(ck)":
			ret = l.WithContextKeys("ck")
		case "WithWriter(w1)":
			ret = l.WithWriter(iw.w1)
		case "WithErrorWriter(w2)":
			ret = l.WithErrorWriter(iw.w2)
		case "WithValueStringer":
			ret = l.WithValueStringer(iw.vs)
		case "SetLevel(Error)":
			ret = l.SetLevel(slog.ErrorLevel)
		case "SetLevel(Info)":
			ret = l.SetLevel(slog.InfoLevel)
		case "SetLevel(Debug)":
			ret = l.SetLevel(slog.DebugLevel)
		case "SetJSONMode()":
			ret = l.SetJSONMode()
		case "SetColorMode(false)":
			ret = l.SetColorMode(false)
		case "SetColorMode(true)":
			ret = l.SetColorMode(true)
		case "SetUTCMode(false)":
			ret = l.SetUTCMode(false)
		case "SetTimeFormat()":
			ret = l.SetTimeFormat()
		case "SetAttrs(sa)":
			ret = l.SetAttrs(iw.sharedSA...)
		case "SetAttrs1(s1)":
			ret = l.SetAttrs1(iw.shared1)
		case "Set(sk,3)":
			ret = l.Set("sk", 3)
		case "SetSkip(3)":
			l.SetSkip(3)
			hasRet = false
		case "slog.SetDefault(it)":
			slog.SetDefault(l)
			hasRet = false
		case "Close()":
			l.Close()
			hasRet = false
		case "SetContextKeys(c2)":
			ret = l.SetContextKeys("c2")
		case "SetWriter(w1)":
			ret = l.SetWriter(iw.w1)
		case "SetErrorWriter(w2)":
			ret = l.SetErrorWriter(iw.w2)
		case "SetValueStringer":
			ret = l.SetValueStringer(iw.vs)
		case "AddWriter(w2)":
			ret = l.AddWriter(iw.w2)
		default:
			panic("unknown op " + o.Kind)
		}
	})
	return
}

// dump renders the real state of every logger of the world in the model's vocabulary.
func (iw *c10world) dump(m mWorld) (mWorld, string) {
	idx := map[*slog.Entry]int{}
	for i, l := range iw.L {
		idx[l] = i
	}
	// canonical names: anonymous loggers get the model's name if theirs is fresh and unique
	actual2model := map[string]string{}
	seenNames := map[string]int{}
	for i, l := range iw.L {
		if i < len(m.L) && m.L[i].Anon && !strings.HasPrefix(m.L[i].Name, "c/") {
			n := l.Name()
			if n == "" {
				return mWorld{}, fmt.Sprintf("anonymous logger L%d has an empty name", i)
			}
			seenNames[n]++
			actual2model[n] = m.L[i].Name
		}
	}
	for n, c := range seenNames {
		if c > 1 {
			return mWorld{}, fmt.Sprintf("two anonymous loggers share the generated name %q", n)
		}
	}
	canon := func(name string) string {
		if mn, ok := actual2model[name]; ok {
			return mn
		}
		if strings.HasPrefix(name, "c/") {
			// WithSkip children embed the (possibly generated) name of their parent
			for a, mn := range actual2model {
				name = strings.ReplaceAll(name, "/"+a+"[", "/"+mn+"[")
			}
		}
		return name
	}
	wname := func(x io.Writer) string {
		so, se := slog.VerifStdFiles()
		switch x {
		case iw.w1:
			return "w1"
		case iw.w2:
			return "w2"
		case io.Writer(so):
			return "stdout"
		case io.Writer(se):
			return "stderr"
		}
		return fmt.Sprintf("?%T", x)
	}
	d := mWorld{DefaultLevel: int(slog.GetLevel()), Debug: slog.VerifDebugMode(), DefaultIdx: m.DefaultIdx, anonCount: m.anonCount}
	for i, l := range iw.L {
		inf := slog.VerifInfo(l)
		ml := mLogger{Name: canon(inf.Name), Parent: -1, Level: int(inf.Level), JSON: inf.UseJSON, Color: inf.UseColor, UTC: inf.ModeUTC,
			Layout: inf.TimeLayout, Skip: inf.ExtraFrames, VS: inf.ValueStringer != nil}
		if i < len(m.L) {
			ml.Anon = m.L[i].Anon
		}
		if inf.Owner != nil {
			p, ok := idx[inf.Owner]
			if !ok {
				return mWorld{}, fmt.Sprintf("logger L%d has a parent outside the world", i)
			}
			ml.Parent = p
		}
		// children in creation order; the map key must be the child's own name
		var kids []int
		for k, c := range inf.Items {
			ci, ok := idx[c]
			if !ok {
				return mWorld{}, fmt.Sprintf("logger L%d has a child %q that no operation returned", i, k)
			}
			if k != c.Name() {
				return mWorld{}, fmt.Sprintf("child L%d is indexed under %q but its Name() is %q (New(name) cannot find it)", ci, k, c.Name())
			}
			kids = append(kids, ci)
		}
		sort.Ints(kids)
		ml.Children = kids
		for _, a := range inf.Attrs {
			if a == nil {
				continue
			}
			ml.Attrs = append(ml.Attrs, fmt.Sprintf("%s=%v", a.Key(), a.Value()))
		}
		for _, k := range inf.ContextKeys {
			ml.CtxKeys = append(ml.CtxKeys, fmt.Sprint(k))
		}
		if inf.HasWriter {
			ml.HasW = true
			for _, x := range inf.Normal {
				ml.Normal = append(ml.Normal, wname(x))
			}
			for _, x := range inf.Error {
				ml.Error = append(ml.Error, wname(x))
			}
			if len(inf.Leveled) > 0 {
				return mWorld{}, fmt.Sprintf("logger L%d has per-level writers nobody configured", i)
			}
		}
		d.L = append(d.L, ml)
	}
	return d, ""
}

func normWorldKey(w mWorld) string {
	// nil vs empty slices must not matter
	n := w.clone()
	for i := range n.L {
		if len(n.L[i].Children) == 0 {
			n.L[i].Children = nil
		}
		if len(n.L[i].Attrs) == 0 {
			n.L[i].Attrs = nil
		}
		if len(n.L[i].CtxKeys) == 0 {
			n.L[i].CtxKeys = nil
		}
		if len(n.L[i].Normal) == 0 {
			n.L[i].Normal = nil
		}
		if len(n.L[i].Error) == 0 {
			n.L[i].Error = nil
		}
	}
	n.anonCount = 0
	return n.key()
}

// lookups checks Parent/Root/Sublogger/Each/getters of every logger against the model.
func (iw *c10world) lookups(m mWorld) (clause, detail string) {
	depth := func(i int) int {
		d := 0
		for m.L[i].Parent >= 0 {
			i = m.L[i].Parent
			d++
		}
		return d
	}
	root := func(i int) int {
		for m.L[i].Parent >= 0 {
			i = m.L[i].Parent
		}
		return i
	}
	var subtree func(i int, out *[]int)
	subtree = func(i int, out *[]int) {
		*out = append(*out, i)
		for _, c := range m.L[i].Children {
			subtree(c, out)
		}
	}
	for i, l := range iw.L {
		ml := m.L[i]
		if int(l.Level()) != ml.Level || l.JSONMode() != ml.JSON || l.ColorMode() != ml.Color || l.Skip() != ml.Skip {
			return "getters", fmt.Sprintf("L%d: Level/JSONMode/ColorMode/Skip = %d/%v/%v/%d, model %d/%v/%v/%d", i, int(l.Level()), l.JSONMode(), l.ColorMode(), l.Skip(), ml.Level, ml.JSON, ml.Color, ml.Skip)
		}
		if ml.Parent < 0 {
			if l.Parent() != nil {
				return "parent", fmt.Sprintf("L%d is a root but Parent() is not nil", i)
			}
		} else if l.Parent() != iw.L[ml.Parent] {
			return "parent", fmt.Sprintf("L%d: Parent() is not L%d", i, ml.Parent)
		}
		if l.Root() != iw.L[root(i)] {
			return "root", fmt.Sprintf("L%d: Root() is not L%d", i, root(i))
		}
		var st []int
		subtree(i, &st)
		// Each, under every iteration order of every children map it walks
		var choices []int
		for {
			var arities []int
			pos := 0
			slog.VerifPermHook = func(n int) []int {
				ps := permutations(n)
				c := 0
				if pos < len(choices) {
					c = choices[pos]
				}
				arities = append(arities, len(ps))
				pos++
				return ps[c%len(ps)]
			}
			visited := map[*slog.Entry]int{}
			var bad string
			l.Each(func(e *slog.Entry, d int) {
				visited[e]++
				j := -1
				for k, x := range iw.L {
					if x == e {
						j = k
					}
				}
				if j < 0 {
					bad = "Each visited a logger outside the world"
					return
				}
				if d != depth(j)-depth(i) {
					bad = fmt.Sprintf("Each from L%d visited L%d at depth %d, expected %d", i, j, d, depth(j)-depth(i))
				}
			})
			slog.VerifPermHook = nil
			if bad != "" {
				return "each", bad
			}
			if len(visited) != len(st) {
				return "each", fmt.Sprintf("Each from L%d visited %d loggers, its subtree has %d", i, len(visited), len(st))
			}
			for _, j := range st {
				if visited[iw.L[j]] != 1 {
					return "each", fmt.Sprintf("Each from L%d visited L%d %d times", i, j, visited[iw.L[j]])
				}
			}
			// next choice vector (odometer)
			for len(choices) < len(arities) {
				choices = append(choices, 0)
			}
			p := len(arities) - 1
			for p >= 0 {
				choices[p]++
				if choices[p] < arities[p] {
					break
				}
				choices[p] = 0
				p--
			}
			if p < 0 {
				break
			}
			choices = choices[:p+1]
		}
		// an Each started inside the callback of another Each must not disturb the outer walk
		if m.L[i].Parent < 0 || len(m.L[i].Children) > 1 {
			outer := map[*slog.Entry]int{}
			inner := 0
			l.Each(func(e *slog.Entry, d int) {
				outer[e]++
				iw.L[root(i)].Each(func(*slog.Entry, int) { inner++ })
			})
			if len(outer) != len(st) {
				return "each", fmt.Sprintf("Each from L%d with a nested Each in its callback visited %d loggers, its subtree has %d", i, len(outer), len(st))
			}
			for _, j := range st {
				if outer[iw.L[j]] != 1 {
					return "each", fmt.Sprintf("Each from L%d with a nested Each in its callback visited L%d %d times", i, j, outer[iw.L[j]])
				}
			}
		}
		// Sublogger(name) for every name in the world + an absent one
		names := map[string]bool{"absent-name": true}
		for _, x := range iw.L {
			names[x.Name()] = true
		}
		for n := range names {
			var cands []int
			for _, j := range st {
				if iw.L[j].Name() == n {
					cands = append(cands, j)
				}
			}
			for _, perm := range permutations(min(len(m.L[i].Children), 3)) {
				p := perm
				slog.VerifPermHook = func(k int) []int {
					if len(p) == k {
						return p
					}
					return nil
				}
				got := l.Sublogger(n)
				slog.VerifPermHook = nil
				if len(cands) == 0 {
					if got != nil {
						return "sublogger", fmt.Sprintf("L%d.Sublogger(%q) returned a logger although its subtree has none of that name", i, n)
					}
					continue
				}
				ok := false
				for _, j := range cands {
					if got == iw.L[j] {
						ok = true
					}
				}
				if !ok {
					return "sublogger", fmt.Sprintf("L%d.Sublogger(%q) did not return a logger of its subtree with that name", i, n)
				}
			}
		}
	}
	return "", ""
}

// probes emits one record on every logger and checks format, own attributes and destination.
func (iw *c10world) probes(m mWorld) (clause, detail string) {
	for i, l := range iw.L {
		ml := m.L[i]
		if ml.VS {
			continue
		}
		wantW1 := 0
		for _, n := range ml.Normal {
			if n == "w1" {
				wantW1++
			}
		}
		if wantW1 == 0 && i%2 == 1 {
			continue // (the stdout fallback is C03's business; probe only every other unconfigured logger)
		}
		iw.rec.reset()
		pan := catch(func() {
			l.WriteThru(bg, slog.AlwaysLevel, fixedTime, 0, "probe", append(slog.Attrs{}, slog.VerifInfo(l).Attrs...))
		})
		if pan != "" {
			return "probe", fmt.Sprintf("probe on L%d panicked: %s", i, firstLine(pan))
		}
		got := iw.rec.byWriter("w1")
		if len(got) != wantW1 {
			return "probe-destination", fmt.Sprintf("L%d: writer w1 received %d records, model says %d", i, len(got), wantW1)
		}
		if wantW1 == 0 {
			continue
		}
		want := "logfmt"
		if ml.JSON {
			want = "json"
		} else if ml.Color {
			want = "color"
		}
		if cls := classifyRecord(got[0]); cls != want {
			return "probe-format", fmt.Sprintf("L%d: model format %s, record looks like %s: %.120q", i, want, cls, got[0])
		}
		if want == "json" {
			obj, err := jsonx.DecodeLine([]byte(got[0]))
			if err != nil {
				return "probe-format", err.Error()
			}
			lastVal := map[string]string{}
			for _, a := range ml.Attrs {
				kv := strings.SplitN(a, "=", 2)
				lastVal[kv[0]] = kv[1]
			}
			for k := range lastVal {
				if _, ok := obj.Get(k); !ok {
					return "probe-attrs", fmt.Sprintf("L%d: own attribute %q missing from its record %.200q", i, k, got[0])
				}
			}
			for _, k := range obj.Keys {
				switch k {
				case "time", "logger", "level", "msg":
					continue
				}
				if _, ok := lastVal[k]; !ok {
					return "probe-attrs", fmt.Sprintf("L%d: record carries attribute %q that is not its own: %.200q", i, k, got[0])
				}
			}
		}
	}
	return "", ""
}

type c10case struct {
	Root int     `json:"root"`
	Ops  []c10op `json:"ops"`
}

func c10opsText(ops []c10op) string {
	var t []string
	for _, o := range ops {
		if o.Target >= 0 {
			t = append(t, fmt.Sprintf("L%d.%s", o.Target, o.Kind))
		} else {
			t = append(t, o.Kind)
		}
	}
	return strings.Join(t, "; ")
}

// c10replay replays the history on real loggers in lock-step with the model.
func c10replay(cas c10case, deep bool) (*Violation, mWorld) {
	iw, m := c10newWorld(cas.Root)
	mk := func(clause, detail string, upto int) *Violation {
		cc := c10case{Root: cas.Root, Ops: cas.Ops[:upto]}
		return mkViolation(fmt.Sprintf("C10|%s|root=%d|%s", clause, cas.Root, c10opsText(cc.Ops)), clause,
			detail+" [root: "+c10rootNames[cas.Root]+"; history: "+c10opsText(cc.Ops)+"]", cc)
	}
	check := func(upto int, full bool) *Violation {
		d, problem := iw.dump(m)
		if problem != "" {
			return mk("tree-consistency", problem, upto)
		}
		if normWorldKey(d) != normWorldKey(m) {
			return mk("state-equals-model", c10diff(d, m), upto)
		}
		if full {
			if cl, dd := iw.lookups(m); cl != "" {
				return mk(cl, dd, upto)
			}
			if cl, dd := iw.probes(m); cl != "" {
				return mk(cl, dd, upto)
			}
		}
		return nil
	}
	if v := check(0, len(cas.Ops) == 0 || deep); v != nil {
		return v, m
	}
	for i, o := range cas.Ops {
		if o.Target >= len(iw.L) {
			return nil, m
		}
		nm, retIdx, alt := m.modelApply(o)
		before := len(iw.L)
		ret, hasRet, pan := iw.apply(o, m)
		if pan != "" {
			return mk("op-returns", o.Kind+" panicked: "+firstLine(pan), i+1), m
		}
		// which logger did the operation return?
		if hasRet {
			if ret == nil {
				return mk("returned-logger", o.Kind+" returned nil", i+1), m
			}
			known := -1
			for k, x := range iw.L {
				if x == ret {
					known = k
				}
			}
			if retIdx >= 0 && retIdx < before {
				// must be an existing logger
				if known != retIdx {
					return mk("returned-logger", fmt.Sprintf("%s on L%d must return the existing logger L%d; it returned %s", o.Kind, o.Target, retIdx, c10who(known)), i+1), m
				}
			} else if retIdx >= before {
				if known >= 0 {
					return mk("returned-logger", fmt.Sprintf("%s on L%d must create a new logger; it returned the existing L%d", o.Kind, o.Target, known), i+1), m
				}
				iw.L = append(iw.L, ret)
			}
		}
		m = nm
		if alt != nil {
			d, problem := iw.dump(*alt)
			if problem == "" && normWorldKey(d) == normWorldKey(*alt) {
				m = *alt
			}
		}
		last := i == len(cas.Ops)-1
		if v := check(i+1, deep || last); v != nil {
			return v, m
		}
	}
	return nil, m
}

func c10who(i int) string {
	if i < 0 {
		return "a logger that is not in the tree"
	}
	return fmt.Sprintf("L%d", i)
}

func c10diff(d, m mWorld) string {
	if d.DefaultLevel != m.DefaultLevel || d.Debug != m.Debug {
		return fmt.Sprintf("globals: package level %d debug %v, model %d %v", d.DefaultLevel, d.Debug, m.DefaultLevel, m.Debug)
	}
	if len(d.L) != len(m.L) {
		return fmt.Sprintf("%d loggers, model %d", len(d.L), len(m.L))
	}
	for i := range d.L {
		a := mWorld{L: []mLogger{d.L[i]}}
		b := mWorld{L: []mLogger{m.L[i]}}
		if normWorldKey(a) != normWorldKey(b) {
			return fmt.Sprintf("logger L%d is %+v, model %+v", i, d.L[i], m.L[i])
		}
	}
	return "states differ"
}

func init() {
	register(&CheckDef{ID: "C10", Run: c10run, Replay: func(raw json.RawMessage) *Violation {
		var cas c10case
		if json.Unmarshal(raw, &cas) != nil {
			return nil
		}
		v, _ := c10replay(cas, true)
		return v
	}})
}

func c10run(c *Ctx) {
	c.Flag("exhaustive", true)
	// "... the package's current default level, which is Warn in a production process until SetLevel changes it":
	// the worker is a production process (not under go test, no debugger, DEBUG unset or - in the environment pass - DEBUG=0)
	if c.Shard == 0 && !slog.VerifInTesting() {
		resetGlobals()
		c.Count("default_level_in_production_checked", 1)
		if got, fresh := slog.GetLevel(), slog.New().Level(); got != slog.WarnLevel || fresh != slog.WarnLevel {
			c.Violate(mkViolation("C10|default-level-in-production|pass="+os.Getenv("VERIF_PASS"), "default-level-in-production",
				fmt.Sprintf("a production process (environment pass %q) before any SetLevel: the package default level is %s and a logger created with the package-level New starts at %s, the statement says Warn", os.Getenv("VERIF_PASS"), levelName(got), levelName(fresh)), c10case{Root: 0}))
		}
	}
	// exploration passes: alphabet level per depth
	passes := [][]int{{0, 0, 1}} // quick: full alphabet to depth 2, reduced at depth 3
	if c.Thorough() {
		passes = [][]int{{0, 0, 1}, {2, 2, 2, 2}, {3, 3, 3, 3, 3, 3}}
	}
	type node struct {
		cas c10case
		m   mWorld
	}
	seen := map[string]bool{}
	n := 0
	passes = append(passes, []int{4, 4, 4}) // the shared-Attrs root with the attribute operations only
	if os.Getenv("VERIF_PASS") == "debug0" {
		// the environment pass: the process was started with DEBUG=0 (a production process all the same): full alphabet to depth 2
		passes = [][]int{{0, 0}}
		c.Info("depth_in_the_pass_with_DEBUG_0", 2)
	}
	for pi, levels := range passes {
		seenPass := map[string]bool{}
		var frontier []node
		for root := 0; root < 4; root++ {
			if (root == 3) != (levels[0] == 4) {
				continue
			}
			_, m := c10newWorld(root)
			key := fmt.Sprint(root, normWorldKey(m))
			frontier = append(frontier, node{c10case{Root: root}, m})
			if !seen[key] {
				seen[key] = true
				if c.Shard == 0 {
					c.Count("states", 1)
					if v, _ := c10replay(c10case{Root: root}, true); v != nil {
						c.Violate(v)
					}
				}
			}
		}
		depthDone := 0
		for depth := 1; depth <= len(levels); depth++ {
			var next []node
			for _, h := range frontier {
				for _, o := range h.m.ops(levels[depth-1]) {
					n++
					cas := c10case{Root: h.cas.Root, Ops: append(append([]c10op{}, h.cas.Ops...), o)}
					nm, _, _ := h.m.modelApply(o)
					key := fmt.Sprint(h.cas.Root, normWorldKey(nm))
					isNew := !seen[key]
					if !seenPass[key] {
						seenPass[key] = true
						next = append(next, node{cas, nm})
					}
					if isNew {
						seen[key] = true
						if c.Shard == 0 {
							c.Count("states", 1)
						}
					}
					if pi > 0 && !isNew {
						continue // later passes only add what the earlier ones did not reach
					}
					if !c.Mine(n) {
						continue
					}
					c.Count("transitions", 1)
					v, _ := c10replay(cas, false)
					if v != nil {
						c.Violate(v)
						continue
					}
					c.Outcome(key)
				}
				if c.Expired() {
					break
				}
			}
			if c.Expired() {
				break
			}
			depthDone = depth
			frontier = next
			if depth == 2 && len(next) > 0 && c.Shard == 0 && pi == 0 {
				x := next[len(next)/2]
				c.Sample(map[string]any{"root": c10rootNames[x.cas.Root], "history": c10opsText(x.cas.Ops)})
			}
			if len(next) == 0 {
				break
			}
		}
		c.Max(fmt.Sprintf("pass%d_alphabet%d_depth_completed", pi, levels[0]), int64(depthDone))
	}
	c.Info("passes", "pass0: full alphabet depth 2 + reduced depth 3; pass1 (thorough): 11-operation alphabet depth 4; pass2 (thorough): 5 tree-structure operations depth 6")
	c.Assume("generated names of anonymous loggers are assumed fresh (they come from a time-seeded generator; a collision is reported as a tree-consistency problem if it is ever observed)")
	c.Assume("New(name, options...) on an existing child may ignore or apply the options (the statement does not say)")
}
