// Command worker links hedzr/logg (instrumented through the build overlay) and
// runs one shard of one check's exploration, or replays one case.
package main

import (
	"encoding/json"
	"flag"
	"fmt"
	"hash/fnv"
	"os"
	"runtime/debug"
	"sort"
	"strings"
	"time"

	"github.com/hedzr/logg/slog"
)

type Violation struct {
	Sig    string          `json:"sig"`
	Clause string          `json:"clause"`
	Detail string          `json:"detail"`
	Case   json.RawMessage `json:"case"`
	Count  int             `json:"count"`
	Shard  int             `json:"shard"`
	Pass   string          `json:"pass"`
}

type Result struct {
	Check       string            `json:"check"`
	Shard       int               `json:"shard"`
	Counters    map[string]int64  `json:"counters"`
	Maxes       map[string]int64  `json:"maxes"`
	Flags       map[string]bool   `json:"flags"`
	Outcomes    []uint64          `json:"outcomes"`
	OutcomesCap bool              `json:"outcomes_capped"`
	Samples     []json.RawMessage `json:"samples"`
	Violations  []*Violation      `json:"violations"`
	Notes       []string          `json:"notes"`
	Assumptions []string          `json:"assumptions"`
	Info        map[string]any    `json:"info"`
	WallS       float64           `json:"wall_s"`
}

type Ctx struct {
	Tier     string
	Shard    int
	NShards  int
	Deadline time.Time
	Seed     int64
	res      *Result
	outcomes map[uint64]struct{}
	vio      map[string]*Violation
	notes    map[string]bool
	stop     bool
	untilSig string // history replay: stop as soon as this signature has been recorded
}

const maxOutcomes = 200000
const maxSamples = 6

func (c *Ctx) Thorough() bool             { return c.Tier == "thorough" }
func (c *Ctx) Count(name string, n int64) { c.res.Counters[name] += n }
func (c *Ctx) Max(name string, v int64) {
	if v > c.res.Maxes[name] {
		c.res.Maxes[name] = v
	}
}
func (c *Ctx) Flag(name string, v bool) {
	if old, ok := c.res.Flags[name]; ok {
		c.res.Flags[name] = old && v
	} else {
		c.res.Flags[name] = v
	}
}
func (c *Ctx) Info(name string, v any) { c.res.Info[name] = v }
func (c *Ctx) Outcome(s string) {
	h := fnv.New64a()
	h.Write([]byte(s))
	k := h.Sum64()
	if _, ok := c.outcomes[k]; ok {
		return
	}
	if len(c.outcomes) >= maxOutcomes {
		c.res.OutcomesCap = true
		return
	}
	c.outcomes[k] = struct{}{}
}
func (c *Ctx) Sample(v any) {
	if len(c.res.Samples) >= maxSamples {
		return
	}
	b, err := json.Marshal(v)
	if err == nil {
		c.res.Samples = append(c.res.Samples, b)
	}
}
func (c *Ctx) Note(s string) {
	if !c.notes[s] {
		c.notes[s] = true
		c.res.Notes = append(c.res.Notes, s)
	}
}
func (c *Ctx) Assume(s string) {
	for _, a := range c.res.Assumptions {
		if a == s {
			return
		}
	}
	c.res.Assumptions = append(c.res.Assumptions, s)
}

// Violate records a violation (de-duplicated on its signature; the first -
// i.e. simplest, thanks to simplest-first enumeration - case is kept).
func (c *Ctx) Violate(v *Violation) {
	if v == nil {
		return
	}
	if old, ok := c.vio[v.Sig]; ok {
		old.Count++
		return
	}
	v.Shard, v.Pass = c.Shard, os.Getenv("VERIF_PASS")
	if c.untilSig != "" {
		if v.Sig != c.untilSig {
			return // history replay: only the awaited signature matters
		}
		c.stop = true
	}
	if len(c.vio) >= maxDistinctViolations {
		c.res.Counters["violations_beyond_cap"]++
		c.stop = true
		return
	}
	v.Count = 1
	c.vio[v.Sig] = v
	c.res.Violations = append(c.res.Violations, v)
}

const maxDistinctViolations = 40

func (c *Ctx) Expired() bool {
	if c.stop {
		c.Flag("exhaustive", false)
		if c.untilSig == "" {
			c.Note("exploration stopped early: more than 40 distinct violation signatures in one worker")
		}
		return true
	}
	if !c.Deadline.IsZero() && time.Now().After(c.Deadline) {
		c.Flag("exhaustive", false)
		c.Note("internal deadline reached; reported counts are what was completed")
		return true
	}
	return false
}

// Mine reports whether item i of a sharded dimension belongs to this shard.
func (c *Ctx) Mine(i int) bool { return c.NShards <= 1 || i%c.NShards == c.Shard }

func mkViolation(sig, clause, detail string, cas any) *Violation {
	b, _ := json.Marshal(cas)
	if len(detail) > 1500 {
		detail = detail[:1500] + "...(truncated)"
	}
	return &Violation{Sig: sig, Clause: clause, Detail: detail, Case: b}
}

type CheckDef struct {
	ID     string
	Run    func(c *Ctx)
	Replay func(raw json.RawMessage) *Violation
}

var checks = map[string]*CheckDef{}

// Which of the rarely touched groups of package globals the cases of a check modify. A snapshot
// unit of the export file that had to be stubbed (its variable no longer exists in that form in
// the tree under check) only matters to the checks that modify that group: for the others the
// variable keeps its initial value for the whole process and restoring it is a no-op.
var checkTouches = map[string][]string{
	"C01": {"registry"}, "C03": {"registry"}, "C06": {"registry", "widths"}, "C09": {"registry", "paths"}, "C11": {"registry"},
	"C13": {"registry"}, "C15": {"registry"}, "C17": {"registry"}, "C18": {"paths"},
}

var snapUnitGroup = map[string]string{}

func init() {
	// statements of the generated snapshot that had to be left out, by the variable they cover
	for v, g := range map[string]string{
		"allLevels": "registry", "levelToString": "registry", "stringToLevel": "registry", "shortTagMap": "registry", "mLevelColors": "registry",
		"mLevelIsEnabledAs": "registry", "mLevelUseErrorDevice": "registry", "mLevelToLogSlog": "registry", "mLogSlogLevelToLevel": "registry",
		"knownPathMap": "paths", "knownPathRegexpMap": "paths", "codeHostingProvidersMap": "paths", "homeDir": "paths", "currDir": "paths",
		"minimalMessageWidth": "widths", "levelOutputWidth": "widths",
	} {
		snapUnitGroup["generated:verifGenSnapshot:"+v] = g
	}
}

// degradedFor returns the stubbed export functions that were used and matter to the given check.
func degradedFor(check string) (ret []string) {
	for _, n := range slog.VerifDegradedUsed() {
		if g, ok := snapUnitGroup[n]; ok {
			matters := false
			for _, t := range checkTouches[check] {
				matters = matters || t == g
			}
			if !matters {
				continue
			}
		}
		ret = append(ret, n)
	}
	return
}

func register(d *CheckDef) { checks[d.ID] = d }

// snap0 is the package-global state of hedzr/logg right after init.
var snap0 *slog.VerifSnap

func resetGlobals() { slog.VerifRestore(snap0) }

// resetGlobalsDirty restores every package global but keeps the pools: the
// pooled print contexts and attribute slices carry whatever the previous case
// left in them (history independence says that must not matter). Checks
// alternate between the two resets; a violation that only shows after a
// particular predecessor is confirmed by history replay (see the driver).
func resetGlobalsDirty() { slog.VerifRestoreKeepPools(snap0) }

// resetAlt alternates between the clean and the dirty reset by case index.
func resetAlt(n int) {
	if n%2 == 1 {
		resetGlobalsDirty()
	} else {
		resetGlobals()
	}
}

var stdoutFile, stderrFile string

// caseSeq counts the cases a worker has evaluated; it selects the reset mode (clean / dirty pools) and the
// flag-setting path of the next case, so that consecutive cases exercise all of them.
var caseSeq int

func main() {
	var (
		check    = flag.String("check", "", "property id")
		tier     = flag.String("tier", "quick", "quick|thorough")
		shard    = flag.Int("shard", 0, "")
		nshards  = flag.Int("nshards", 1, "")
		out      = flag.String("out", "", "result file")
		replay   = flag.String("replay", "", "case file to replay")
		deadline = flag.Int("deadline", 0, "internal deadline in seconds")
		seed     = flag.Int64("seed", 0, "")
		sub      = flag.String("sub", "", "sub-mode (check specific, e.g. C12 child)")
		untilSig = flag.String("until-sig", "", "history replay: run the shard until this violation signature is recorded")
		_        = flag.Bool("test.v", false, "accepted so that the worker can be started in go-test mode")
	)
	flag.StringVar(&stdoutFile, "stdout-file", "", "file that fd 1 is redirected to")
	flag.StringVar(&stderrFile, "stderr-file", "", "file that fd 2 is redirected to")
	flag.Parse()
	debug.SetGCPercent(400)

	if *sub != "" {
		runSub(*sub, flag.Args())
		return
	}

	snap0 = slog.VerifSnapshot()
	d := checks[*check]
	if d == nil {
		fmt.Fprintf(os.Stderr, "unknown check %q\n", *check)
		os.Exit(2)
	}
	if *replay != "" {
		raw, err := os.ReadFile(*replay)
		if err != nil {
			fmt.Fprintln(os.Stderr, err)
			os.Exit(2)
		}
		// a replay file is either a bare case or {"property":..,"case":..}
		var wrap struct {
			Case json.RawMessage `json:"case"`
		}
		if json.Unmarshal(raw, &wrap) == nil && len(wrap.Case) > 0 {
			raw = wrap.Case
		}
		v := d.Replay(raw)
		if dg := degradedFor(*check); len(dg) > 0 {
			v = nil // part of the instrumentation was stubbed for this tree and the case used it: no verdict
		}
		res := map[string]any{"violated": v != nil}
		if v != nil {
			res["sig"] = v.Sig
			res["clause"] = v.Clause
			res["detail"] = v.Detail
		}
		b, _ := json.Marshal(res)
		if *out != "" {
			os.WriteFile(*out, b, 0o644)
		} else {
			os.Stdout.Write(append(b, '\n'))
		}
		return
	}
	c := &Ctx{Tier: *tier, Shard: *shard, NShards: *nshards, Seed: *seed,
		res: &Result{Check: *check, Shard: *shard, Counters: map[string]int64{}, Maxes: map[string]int64{},
			Flags: map[string]bool{}, Info: map[string]any{}},
		outcomes: map[uint64]struct{}{}, vio: map[string]*Violation{}, notes: map[string]bool{}, untilSig: *untilSig}
	if *deadline > 0 {
		c.Deadline = time.Now().Add(time.Duration(*deadline) * time.Second)
	}
	t0 := time.Now()
	func() {
		// A panic that escapes a harness (the library panicked somewhere the harness does not expect it
		// to) must not look like an infrastructure hiccup: it is recorded as a candidate violation. It
		// cannot be replayed as a single case; the driver confirms it by re-running this shard.
		defer func() {
			if p := recover(); p != nil {
				stack := string(debug.Stack())
				where := ""
				for _, l := range strings.Split(stack, "\n") {
					if strings.Contains(l, "github.com/hedzr/logg/") && strings.Contains(l, "(") {
						where = strings.TrimSpace(l)
						if i := strings.Index(where, "("); i > 0 {
							where = where[:i]
						}
						break
					}
				}
				msg := fmt.Sprint(p)
				if len(msg) > 120 {
					msg = msg[:120]
				}
				c.untilSig = ""
				c.Violate(mkViolation(fmt.Sprintf("%s|worker-panic|%s|%s", *check, msg, where), "no-panic-in-library",
					fmt.Sprintf("the exploration hit a panic outside any guarded call: %v\n%s", p, firstLines(stack, 24)), map[string]any{"panic": msg, "in": where}))
				c.Flag("exhaustive", false)
			}
		}()
		d.Run(c)
	}()
	c.res.WallS = time.Since(t0).Seconds()
	if dg := degradedFor(*check); len(dg) > 0 {
		// part of the instrumentation was stubbed for this tree (a private identifier it reads no longer
		// exists in that form) and this check used it: what it observed is not trustworthy, no verdict
		c.res.Violations = nil
		c.res.Flags["exhaustive"] = false
		c.res.Notes = append(c.res.Notes, "DEGRADED: stubbed instrumentation used: "+strings.Join(dg, ", "))
	}
	for k := range c.outcomes {
		c.res.Outcomes = append(c.res.Outcomes, k)
	}
	sort.Slice(c.res.Outcomes, func(i, j int) bool { return c.res.Outcomes[i] < c.res.Outcomes[j] })
	b, _ := json.Marshal(c.res)
	if *out != "" {
		if err := os.WriteFile(*out, b, 0o644); err != nil {
			fmt.Fprintln(os.Stderr, err)
			os.Exit(2)
		}
	} else {
		os.Stdout.Write(append(b, '\n'))
	}
}

var subs = map[string]func(args []string){}

func runSub(name string, args []string) {
	f := subs[name]
	if f == nil {
		fmt.Fprintf(os.Stderr, "unknown sub %q\n", name)
		os.Exit(2)
	}
	f(args)
}

// catch runs f and returns the recovered panic text ("" if none).
func catch(f func()) (p string) {
	defer func() {
		if r := recover(); r != nil {
			p = fmt.Sprintf("%v", r)
			if p == "" {
				p = "(empty panic value)"
			}
		}
	}()
	f()
	return ""
}

func firstLines(s string, n int) string {
	l := strings.Split(s, "\n")
	if len(l) > n {
		l = l[:n]
	}
	return strings.Join(l, "\n")
}

func firstLine(s string) string {
	if i := strings.IndexByte(s, '\n'); i >= 0 {
		return s[:i]
	}
	return s
}
