package main

// C01 - level gating. Shape H over the gating-relevant global state (debug /
// trace mode, registry, default level) x shape I probe matrix in every state:
// logger level x severity x every public entry point.

import (
	"context"
	"encoding/json"
	"fmt"
	logslog "log/slog"
	"strings"

	"github.com/hedzr/is"
	"github.com/hedzr/is/states"
	"github.com/hedzr/logg/slog"
)

// ---- entry points

type c01entry struct {
	name  string
	fixed bool       // severity fixed by the verb
	sev   slog.Level // when fixed
	never bool       // Verbose*: must never write
	pkg   bool       // package-level function on the default logger
	// call issues one record through this entry point; r is used by generic entry points.
	call func(l slog.Logger, r slog.Level)
	// usable reports whether the generic entry point can express severity r
	usable func(r slog.Level) bool
}

var c01ctx = context.WithValue(context.Background(), "k", "v") //nolint

func logslogLevelFor(r slog.Level) (logslog.Level, bool) {
	switch r {
	case slog.DebugLevel:
		return logslog.LevelDebug, true
	case slog.InfoLevel:
		return logslog.LevelInfo, true
	case slog.WarnLevel:
		return logslog.LevelWarn, true
	case slog.ErrorLevel:
		return logslog.LevelError, true
	case slog.TraceLevel:
		return slog.LevelTrace, true
	case slog.FatalLevel:
		return slog.LevelFatal, true
	case slog.PanicLevel:
		return slog.LevelPanic, true
	}
	return 0, false
}

func c01entries() []c01entry {
	var es []c01entry
	fx := func(name string, sev slog.Level, call func(l slog.Logger)) {
		es = append(es, c01entry{name: name, fixed: true, sev: sev, call: func(l slog.Logger, _ slog.Level) { call(l) }})
	}
	fx("Panic", slog.PanicLevel, func(l slog.Logger) { l.Panic("m", "k", 1) })
	fx("Fatal", slog.FatalLevel, func(l slog.Logger) { l.Fatal("m", "k", 1) })
	fx("Error", slog.ErrorLevel, func(l slog.Logger) { l.Error("m", "k", 1) })
	fx("Warn", slog.WarnLevel, func(l slog.Logger) { l.Warn("m", "k", 1) })
	fx("Info", slog.InfoLevel, func(l slog.Logger) { l.Info("m", "k", 1) })
	fx("Debug", slog.DebugLevel, func(l slog.Logger) { l.Debug("m", "k", 1) })
	fx("Trace", slog.TraceLevel, func(l slog.Logger) { l.Trace("m", "k", 1) })
	fx("Print", slog.AlwaysLevel, func(l slog.Logger) { l.Print("m", "k", 1) })
	fx("Println", slog.AlwaysLevel, func(l slog.Logger) { l.Println("m", "k", 1) })
	fx("Println() without arguments", slog.AlwaysLevel, func(l slog.Logger) { l.Println() })
	fx("Print(blank message)", slog.AlwaysLevel, func(l slog.Logger) { l.Print("") })
	fx("OK", slog.OKLevel, func(l slog.Logger) { l.OK("m", "k", 1) })
	fx("Success", slog.SuccessLevel, func(l slog.Logger) { l.Success("m", "k", 1) })
	fx("Fail", slog.FailLevel, func(l slog.Logger) { l.Fail("m", "k", 1) })
	fx("PanicContext", slog.PanicLevel, func(l slog.Logger) { l.PanicContext(c01ctx, "m", "k", 1) })
	fx("FatalContext", slog.FatalLevel, func(l slog.Logger) { l.FatalContext(c01ctx, "m", "k", 1) })
	fx("ErrorContext", slog.ErrorLevel, func(l slog.Logger) { l.ErrorContext(c01ctx, "m", "k", 1) })
	fx("WarnContext", slog.WarnLevel, func(l slog.Logger) { l.WarnContext(c01ctx, "m", "k", 1) })
	fx("InfoContext", slog.InfoLevel, func(l slog.Logger) { l.InfoContext(c01ctx, "m", "k", 1) })
	fx("DebugContext", slog.DebugLevel, func(l slog.Logger) { l.DebugContext(c01ctx, "m", "k", 1) })
	fx("TraceContext", slog.TraceLevel, func(l slog.Logger) { l.TraceContext(c01ctx, "m", "k", 1) })
	fx("PrintContext", slog.AlwaysLevel, func(l slog.Logger) { l.PrintContext(c01ctx, "m", "k", 1) })
	fx("PrintlnContext", slog.AlwaysLevel, func(l slog.Logger) { l.PrintlnContext(c01ctx, "m", "k", 1) })
	fx("OKContext", slog.OKLevel, func(l slog.Logger) { l.OKContext(c01ctx, "m", "k", 1) })
	fx("SuccessContext", slog.SuccessLevel, func(l slog.Logger) { l.SuccessContext(c01ctx, "m", "k", 1) })
	fx("FailContext", slog.FailLevel, func(l slog.Logger) { l.FailContext(c01ctx, "m", "k", 1) })
	fx("Infof", slog.InfoLevel, func(l slog.Logger) { _ = l.Infof("m %d", 1) })
	fx("Warnf", slog.WarnLevel, func(l slog.Logger) { _ = l.Warnf("m %d", 1) })
	fx("Errorf", slog.ErrorLevel, func(l slog.Logger) { _ = l.Errorf("m %d", 1) })
	es = append(es, c01entry{name: "Verbose", never: true, call: func(l slog.Logger, _ slog.Level) { l.Verbose("m", "k", 1) }})
	es = append(es, c01entry{name: "VerboseContext", never: true, call: func(l slog.Logger, _ slog.Level) { l.VerboseContext(c01ctx, "m", "k", 1) }})
	es = append(es, c01entry{name: "LogAttrs", call: func(l slog.Logger, r slog.Level) { l.LogAttrs(c01ctx, r, "m", "k", 1) }})
	es = append(es, c01entry{name: "Logit", call: func(l slog.Logger, r slog.Level) { l.Logit(c01ctx, r, "m", "k", 1) }})
	es = append(es, c01entry{name: "Log(log/slog level)", call: func(l slog.Logger, r slog.Level) {
		ll, _ := logslogLevelFor(r)
		l.Log(c01ctx, ll, "m", "k", 1)
	}, usable: func(r slog.Level) bool { _, ok := logslogLevelFor(r); return ok }})

	// package-level functions (always on the default logger)
	px := func(name string, sev slog.Level, call func()) {
		es = append(es, c01entry{name: "slog." + name, fixed: true, sev: sev, pkg: true, call: func(_ slog.Logger, _ slog.Level) { call() }})
	}
	px("Panic", slog.PanicLevel, func() { slog.Panic("m", "k", 1) })
	px("Fatal", slog.FatalLevel, func() { slog.Fatal("m", "k", 1) })
	px("Error", slog.ErrorLevel, func() { slog.Error("m", "k", 1) })
	px("Warn", slog.WarnLevel, func() { slog.Warn("m", "k", 1) })
	px("Info", slog.InfoLevel, func() { slog.Info("m", "k", 1) })
	px("Debug", slog.DebugLevel, func() { slog.Debug("m", "k", 1) })
	px("Trace", slog.TraceLevel, func() { slog.Trace("m", "k", 1) })
	px("Print", slog.AlwaysLevel, func() { slog.Print("m", "k", 1) })
	px("Println", slog.AlwaysLevel, func() { slog.Println("m", "k", 1) })
	px("Println() without arguments", slog.AlwaysLevel, func() { slog.Println() })
	px("OK", slog.OKLevel, func() { slog.OK("m", "k", 1) })
	px("Success", slog.SuccessLevel, func() { slog.Success("m", "k", 1) })
	px("Fail", slog.FailLevel, func() { slog.Fail("m", "k", 1) })
	px("PanicContext", slog.PanicLevel, func() { slog.PanicContext(c01ctx, "m", "k", 1) })
	px("FatalContext", slog.FatalLevel, func() { slog.FatalContext(c01ctx, "m", "k", 1) })
	px("ErrorContext", slog.ErrorLevel, func() { slog.ErrorContext(c01ctx, "m", "k", 1) })
	px("WarnContext", slog.WarnLevel, func() { slog.WarnContext(c01ctx, "m", "k", 1) })
	px("InfoContext", slog.InfoLevel, func() { slog.InfoContext(c01ctx, "m", "k", 1) })
	px("DebugContext", slog.DebugLevel, func() { slog.DebugContext(c01ctx, "m", "k", 1) })
	px("TraceContext", slog.TraceLevel, func() { slog.TraceContext(c01ctx, "m", "k", 1) })
	px("PrintContext", slog.AlwaysLevel, func() { slog.PrintContext(c01ctx, "m", "k", 1) })
	px("PrintlnContext", slog.AlwaysLevel, func() { slog.PrintlnContext(c01ctx, "m", "k", 1) })
	px("OKContext", slog.OKLevel, func() { slog.OKContext(c01ctx, "m", "k", 1) })
	px("SuccessContext", slog.SuccessLevel, func() { slog.SuccessContext(c01ctx, "m", "k", 1) })
	px("FailContext", slog.FailLevel, func() { slog.FailContext(c01ctx, "m", "k", 1) })
	es = append(es, c01entry{name: "slog.Verbose", never: true, pkg: true, call: func(_ slog.Logger, _ slog.Level) { slog.Verbose("m", "k", 1) }})
	es = append(es, c01entry{name: "slog.VerboseContext", never: true, pkg: true, call: func(_ slog.Logger, _ slog.Level) { slog.VerboseContext(c01ctx, "m", "k", 1) }})
	return es
}

// ---- registered customs

type c01custom struct {
	val     slog.Level
	title   string
	treatAs slog.Level // MaxLevel = none
	errDev  bool
}

var c01customs = []c01custom{
	{-8, "neg8", slog.MaxLevel, false},
	{-3, "neg3info", slog.InfoLevel, false},
	{-5, "neg5err", slog.ErrorLevel, true},
	{slog.MaxLevel, "atmax", slog.MaxLevel, false},
	{18, "notice18", slog.InfoLevel, false},
	{19, "swell19", slog.ErrorLevel, true},
	{100, "dbg100", slog.DebugLevel, false},
	{101, "trc101", slog.TraceLevel, true},
	{20, "crit20", slog.FatalLevel, true},
	{21, "emerg21", slog.PanicLevel, false},
	{22, "caution22", slog.WarnLevel, false},
}

func c01register(c c01custom) {
	var opts []slog.RegOpt
	if c.treatAs != slog.MaxLevel {
		opts = append(opts, slog.RegWithTreatedAsLevel(c.treatAs))
	}
	if c.errDev {
		opts = append(opts, slog.RegWithPrintToErrorDevice(true))
	}
	_ = slog.RegisterLevel(c.val, c.title, opts...)
}

// ---- history ops on the gating-relevant global state

type c01op struct {
	name string
	f    func(a *slog.Entry)
}

func c01ops() []c01op {
	ops := []c01op{
		{"A.SetLevel(Debug)", func(a *slog.Entry) { a.SetLevel(slog.DebugLevel) }},
		{"A.SetLevel(Trace)", func(a *slog.Entry) { a.SetLevel(slog.TraceLevel) }},
		{"A.SetLevel(Info)", func(a *slog.Entry) { a.SetLevel(slog.InfoLevel) }},
		{"other detached logger B.SetLevel(Debug)", func(a *slog.Entry) { slog.New("B").SetLevel(slog.DebugLevel) }},
		{"A.WithLevel(Debug) (child)", func(a *slog.Entry) { a.WithLevel(slog.DebugLevel) }},
		{"slog.New(x, WithLevel(Debug))", func(a *slog.Entry) { slog.New("x", slog.WithLevel(slog.DebugLevel)) }},
		{"slog.SetLevel(Debug)", func(a *slog.Entry) { slog.SetLevel(slog.DebugLevel) }},
		{"slog.SetLevel(Info)", func(a *slog.Entry) { slog.SetLevel(slog.InfoLevel) }},
		{"slog.SetLevel(Off)", func(a *slog.Entry) { slog.SetLevel(slog.OffLevel) }},
		{"slog.Default().SetLevel(Debug)", func(a *slog.Entry) { slog.Default().SetLevel(slog.DebugLevel) }},
		{"slog.Default().SetLevel(Error)", func(a *slog.Entry) { slog.Default().SetLevel(slog.ErrorLevel) }},
		{"slog.ResetLevel()", func(a *slog.Entry) { slog.ResetLevel() }},
		// the application installs a state block of its own in the hedzr/is package (the process-wide debug and trace modes live there)
		{"states.UpdateEnvWith(the application's own state block)", func(a *slog.Entry) { states.UpdateEnvWith(&c01userEnv{}) }},
	}
	for _, c := range c01customs {
		c := c
		ops = append(ops, c01op{fmt.Sprintf("RegisterLevel(%d,%s)", int(c.val), c.title), func(a *slog.Entry) { c01register(c) }})
	}
	return ops
}

type c01case struct {
	History []int    `json:"history"`
	Text    []string `json:"history_text,omitempty"`
	L       int      `json:"logger_level"`
	R       int      `json:"severity"`
	Entry   string   `json:"entry"`
	Format  string   `json:"format"`
	Pre     string   `json:"lifecycle,omitempty"`
}

// c01lifecycles: what happened to the logger before the decision is observed. Close is "reserved for future"
// and a logger stays a logger after it; the statement knows no closed state that would silence an admitted record.
var c01lifecycles = []string{"A.Close()", "child New(item) used, closed, obtained again by name and given writers again", "parent closed, child used", "A.Close() twice, writers set again"}

func c01lifecycle(pre string, a slog.Logger, rec *recorder) slog.Logger {
	w := &plainW{"w", rec}
	switch pre {
	case "A.Close()":
		a.Close()
	case "child New(item) used, closed, obtained again by name and given writers again":
		ch := a.New("item").SetWriter(w).SetErrorWriter(w)
		ch.Info("first item")
		ch.Close()
		return a.New("item").SetWriter(w).SetErrorWriter(w)
	case "parent closed, child used":
		ch := a.New("item").SetWriter(w).SetErrorWriter(w)
		a.Close()
		return ch
	case "A.Close() twice, writers set again":
		a.Close()
		a.Close()
		a.SetWriter(w).SetErrorWriter(w)
	}
	return a
}

// c01build replays a history on a fresh world and returns logger A.
func c01build(ops []c01op, hist []int) (a slog.Logger, rec *recorder) {
	states.UpdateEnvWith(c01env0)
	resetGlobals()
	slog.AddFlags(slog.LnoInterrupt)
	rec = &recorder{}
	w := &plainW{"w", rec}
	a = slog.New("A").SetWriter(w).SetErrorWriter(w)
	for _, oi := range hist {
		ops[oi].f(slog.VerifEntryOf(a))
	}
	return
}

func c01stateKey() string {
	d := slog.Default()
	return slog.VerifDumpGlobals() + fmt.Sprintf("default.level=%d own-state-block=%v", int(d.Level()), states.Env() != c01env0)
}

// the state block of hedzr/is as the process started with it
var c01env0 = states.Env()

// c01userEnv is an application's own implementation of the state block.
type c01userEnv struct {
	debug, trace, nocolor, verbose, quiet bool
	dl, tl, nc, vc, qc                    int
}

func (e *c01userEnv) InDebugging() bool        { return false }
func (e *c01userEnv) GetDebugMode() bool       { return e.debug }
func (e *c01userEnv) SetDebugMode(b bool)      { e.debug = b }
func (e *c01userEnv) GetDebugLevel() int       { return e.dl }
func (e *c01userEnv) SetDebugLevel(hits int)   { e.dl = hits }
func (e *c01userEnv) GetTraceMode() bool       { return e.trace }
func (e *c01userEnv) SetTraceMode(b bool)      { e.trace = b }
func (e *c01userEnv) GetTraceLevel() int       { return e.tl }
func (e *c01userEnv) SetTraceLevel(hits int)   { e.tl = hits }
func (e *c01userEnv) IsNoColorMode() bool      { return e.nocolor }
func (e *c01userEnv) SetNoColorMode(b bool)    { e.nocolor = b }
func (e *c01userEnv) CountOfNoColor() int      { return e.nc }
func (e *c01userEnv) SetNoColorCount(hits int) { e.nc = hits }
func (e *c01userEnv) IsVerboseMode() bool      { return e.verbose }
func (e *c01userEnv) IsVerboseModePure() bool  { return e.verbose }
func (e *c01userEnv) SetVerboseMode(b bool)    { e.verbose = b }
func (e *c01userEnv) CountOfVerbose() int      { return e.vc }
func (e *c01userEnv) SetVerboseCount(hits int) { e.vc = hits }
func (e *c01userEnv) IsQuietMode() bool        { return e.quiet }
func (e *c01userEnv) SetQuietMode(b bool)      { e.quiet = b }
func (e *c01userEnv) CountOfQuiet() int        { return e.qc }
func (e *c01userEnv) SetQuietCount(hits int)   { e.qc = hits }

func c01customMaps() (treat map[slog.Level]slog.Level, registered []slog.Level) {
	treat = map[slog.Level]slog.Level{}
	for _, l := range slog.AllLevels() {
		isBuiltin := false
		for _, b := range builtinLevels {
			if b == l {
				isBuiltin = true
			}
		}
		if isBuiltin {
			continue
		}
		registered = append(registered, l)
		for _, c := range c01customs {
			if c.val == l && c.treatAs != slog.MaxLevel {
				treat[l] = c.treatAs
			}
		}
	}
	return
}

func c01setFormat(l slog.Logger, f string) {
	switch f {
	case "json":
		l.SetJSONMode(true)
	case "logfmt":
		l.SetColorMode(false)
	default:
		l.SetColorMode(true)
	}
}

// c01probe runs one cell; the world must already be built (history replayed).
func c01probe(a slog.Logger, rec *recorder, e *c01entry, L, r slog.Level, format string, customs map[slog.Level]slog.Level, cas func() c01case) *Violation {
	target := a
	if e.pkg {
		target = slog.Default()
		w := &plainW{"w", rec}
		target.SetWriter(w).SetErrorWriter(w)
	}
	ent := slog.VerifEntryOf(target)
	// SetLevel(Debug/Trace) has a process-wide side effect; the cell must not
	// change the state under test, so remember and put back the modes.
	dbg, trc := is.DebugMode(), is.TraceMode()
	target.SetLevel(L)
	is.SetDebugMode(dbg)
	is.SetTraceMode(trc)
	c01setFormat(target, format)
	rec.reset()
	sev := r
	if e.fixed {
		sev = e.sev
	}
	pan := catch(func() { e.call(target, sev) })
	wrote := len(rec.events) > 0
	mk := func(clause, dir, detail string) *Violation {
		sig := fmt.Sprintf("C01|%s|entry=%s|severity=%s|%s", clause, e.name, levelName(sev), dir)
		return mkViolation(sig, clause, detail, cas())
	}
	if pan != "" {
		return mk("call-returns", "panic", fmt.Sprintf("logger level %s: call panicked: %s", levelName(L), firstLine(pan)))
	}
	if e.never {
		if wrote {
			return mk("verbose-silent", "wrote", fmt.Sprintf("logger level %s: Verbose wrote %q", levelName(L), rec.all()))
		}
		return nil
	}
	want, fixedByStatement := refAdmit(L, sev, dbg, customs)
	if !fixedByStatement {
		return nil
	}
	if wrote != want {
		dir := "silent-but-admitted"
		if wrote {
			dir = "wrote-but-not-admitted"
		}
		return mk("admission", dir, fmt.Sprintf("logger level %s(%d), severity %s(%d), debug mode %v: reference admits=%v, output written=%v (%.80q)",
			levelName(L), int(L), levelName(sev), int(sev), dbg, want, wrote, rec.all()))
	}
	if wrote && len(rec.events) != 1 {
		return mk("admission", "multiple-writes", fmt.Sprintf("%d writes for one admitted call", len(rec.events)))
	}
	// Enabled / EnabledContext agree
	en1, en2 := ent.Enabled(sev), ent.EnabledContext(c01ctx, sev)
	if en1 != want || en2 != want {
		return mkViolation(fmt.Sprintf("C01|enabled-getter|severity=%s|L=%s", levelName(sev), levelName(L)), "enabled-getter",
			fmt.Sprintf("logger level %s severity %s debug=%v: reference %v, Enabled=%v EnabledContext=%v", levelName(L), levelName(sev), dbg, want, en1, en2), cas())
	}
	return nil
}

func init() {
	register(&CheckDef{ID: "C01", Run: c01run, Replay: c01replay})
}

func c01replay(raw json.RawMessage) *Violation {
	var cas c01case
	if json.Unmarshal(raw, &cas) != nil {
		return nil
	}
	ops := c01ops()
	a, rec := c01build(ops, cas.History)
	if cas.Pre != "" {
		a = c01lifecycle(cas.Pre, a, rec)
	}
	customs, _ := c01customMaps()
	for _, e := range c01entries() {
		if e.name == cas.Entry {
			e := e
			return c01probe(a, rec, &e, slog.Level(cas.L), slog.Level(cas.R), cas.Format, customs, func() c01case { return cas })
		}
	}
	return nil
}

func c01run(c *Ctx) {
	ops := c01ops()
	entries := c01entries()
	maxDepth := 2
	if c.Thorough() {
		maxDepth = 3
	}
	c.Flag("exhaustive", true)
	c.Info("entry_points", len(entries))
	c.Info("history_ops", len(ops))
	// BFS over histories, de-duplicated on the global-state dump
	type st struct{ hist []int }
	seen := map[string]bool{}
	var states []st
	frontier := []st{{nil}}
	c01build(ops, nil)
	seen[c01stateKey()] = true
	states = append(states, st{nil})
	trans := 0
	depthDone := 0
	for depth := 1; depth <= maxDepth; depth++ {
		var next []st
		for _, s := range frontier {
			for oi := range ops {
				h := append(append([]int{}, s.hist...), oi)
				c01build(ops, h)
				trans++
				k := c01stateKey()
				if seen[k] {
					continue
				}
				seen[k] = true
				next = append(next, st{h})
				states = append(states, st{h})
			}
		}
		frontier = next
		depthDone = depth
		if len(next) == 0 {
			c.Flag("fixpoint", true)
			break
		}
	}
	if c.Shard == 0 {
		c.Count("states", int64(len(states)))
		c.Count("transitions", int64(trans))
	}
	c.Max("history_depth_completed", int64(depthDone))

	formats := []string{"color"}
	for si, s := range states {
		if !c.Mine(si) {
			continue
		}
		if c.Expired() {
			break
		}
		a, rec := c01build(ops, s.hist)
		customs, registered := c01customMaps()
		sevs := append(append([]slog.Level{}, builtinLevels...), registered...)
		sevs = append(sevs, slog.Level(77)) // unregistered
		fm := formats
		if si%7 == 0 || c.Thorough() {
			fm = []string{"color", "json", "logfmt"}
		}
		var htext []string
		for _, o := range s.hist {
			htext = append(htext, ops[o].name)
		}
		if si == len(states)/2 {
			c.Sample(map[string]any{"history": htext, "registered_customs": len(registered), "debug_mode": is.DebugMode(),
				"cells": fmt.Sprintf("%d logger levels x %d severities x %d entry points x %d formats", len(builtinLevels), len(sevs), len(entries), len(fm))})
		}
		// logger levels: the 12 built-ins plus the registered customs (a custom logger level is compared
		// wherever the reference is fixed: no treat-as level, or both readings agree)
		loggerLevels := append(append([]slog.Level{}, builtinLevels...), registered...)
		for _, format := range fm {
			for _, L := range loggerLevels {
				for ei := range entries {
					e := &entries[ei]
					rs := sevs
					if e.fixed || e.never {
						rs = sevs[:1]
					}
					for _, r := range rs {
						if e.usable != nil && !e.usable(r) {
							continue
						}
						c.Count("evaluations", 1)
						v := c01probe(a, rec, e, L, r, format, customs, func() c01case {
							return c01case{History: s.hist, Text: htext, L: int(L), R: int(r), Entry: e.name, Format: format}
						})
						if v != nil {
							c.Violate(v)
						} else {
							sev := r
							if e.fixed {
								sev = e.sev
							}
							c.Outcome(fmt.Sprintf("%d|%d|%v|%v", L, sev, is.DebugMode(), len(rec.events) > 0))
						}
					}
				}
			}
		}
		// ---- debug mode flips between two decisions of the same logger (no SetLevel on it in between)
		for _, L := range builtinLevels {
			for _, startDebug := range []bool{false, true} {
				for _, via := range []string{"Debug", "DebugContext", "LogAttrs", "Enabled", "slog.Debug"} {
					a2, rec2 := c01build(ops, s.hist)
					target := a2
					if via == "slog.Debug" {
						target = slog.Default()
						w := &plainW{"w", rec2}
						target.SetWriter(w).SetErrorWriter(w)
					}
					target.SetLevel(L)
					slog.VerifRestoreModes(startDebug, false)
					issue := func() bool {
						rec2.reset()
						switch via {
						case "Debug":
							target.Debug("m")
						case "DebugContext":
							target.DebugContext(c01ctx, "m")
						case "LogAttrs":
							target.LogAttrs(c01ctx, slog.DebugLevel, "m")
						case "Enabled":
							return target.Enabled(slog.DebugLevel)
						case "slog.Debug":
							slog.Debug("m")
						}
						return len(rec2.events) > 0
					}
					for step := 0; step < 3; step++ {
						dbg := slog.VerifDebugMode()
						want, fixed := refAdmit(L, slog.DebugLevel, dbg, customs)
						got := issue()
						c.Count("evaluations", 1)
						if fixed && got != want {
							c.Violate(mkViolation(fmt.Sprintf("C01|admission-after-debug-flip|via=%s|L=%s|start=%v|step=%d", via, levelName(L), startDebug, step), "admission",
								fmt.Sprintf("logger level %s, Debug issued through %s: debug mode is %v now (it was flipped after an earlier decision of the same logger), reference admits=%v, observed=%v", levelName(L), via, dbg, want, got),
								c01case{History: s.hist, Text: htext, L: int(L), R: int(slog.DebugLevel), Entry: "debug-flip:" + via, Format: fmt.Sprint(startDebug)}))
							break
						}
						// flip the process-wide mode the way user code does: SetLevel(Debug) on an unrelated logger switches it on
						if !dbg {
							slog.New("unrelated").SetLevel(slog.DebugLevel)
						} else {
							slog.VerifRestoreModes(false, false)
						}
					}
				}
			}
		}
	}
	// ---- lifecycle layer: the decision of a logger that was closed (or whose parent was), all entry points of the logger itself
	if c.Shard == 0 {
		for _, pre := range c01lifecycles {
			for _, format := range []string{"color", "json"} {
				for _, L := range builtinLevels {
					for ei := range entries {
						e := &entries[ei]
						if e.pkg {
							continue
						}
						rs := builtinLevels
						if e.fixed || e.never {
							rs = builtinLevels[:1]
						}
						for _, r := range rs {
							if e.usable != nil && !e.usable(r) {
								continue
							}
							a, rec := c01build(ops, nil)
							a = c01lifecycle(pre, a, rec)
							c.Count("evaluations", 1)
							if v := c01probe(a, rec, e, L, r, format, map[slog.Level]slog.Level{}, func() c01case {
								return c01case{L: int(L), R: int(r), Entry: e.name, Format: format, Pre: pre}
							}); v != nil {
								v.Sig += "|after=" + pre
								v.Detail = "after: " + pre + "; " + v.Detail
								c.Violate(v)
							}
						}
					}
				}
			}
		}
		c.Info("lifecycle_scenarios", c01lifecycles)
	}
	c.Assume("logger levels OK/Success/Fail are compared only where the raw and the treated-as reading of the logger level agree (the statement does not fix the other cells)")
	c.Assume("custom levels are used both as severity and as logger level; cells whose reference is not fixed by the statement are skipped")
	_ = strings.Join
}
