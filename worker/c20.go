package main

// C20 - duration text helpers. Shape I: (a) formatter over windows around the
// unit boundaries and the extremes plus the full component product, both
// styles, round trip through the package's parser; (b) parser over every string
// up to a length bound over the duration alphabet, against time.ParseDuration
// (strings without the day unit) and an exact math/big evaluator (with it).

import (
	"encoding/json"
	"fmt"
	"math"
	"math/big"
	"strings"
	"time"

	"github.com/hedzr/logg/slog"
)

type c20case struct {
	Kind   string `json:"kind"` // format | parse
	Value  int64  `json:"value,omitempty"`
	Frac   bool   `json:"frac,omitempty"`
	Text   string `json:"text,omitempty"`
	Value2 int64  `json:"then_value,omitempty"`
}

// the text returned for an earlier value must still be intact after later calls
var c20prevText, c20prevCopy string
var c20prevVal int64
var c20prevFrac bool

func c20evalFormat(v int64, frac bool) *Violation {
	var text string
	pan := catch(func() { text = slog.VerifSmartDurationStringEx(time.Duration(v), frac) })
	if c20prevCopy != "" && c20prevText != c20prevCopy {
		pv, pf, was, now := c20prevVal, c20prevFrac, c20prevCopy, c20prevText
		c20prevCopy = ""
		return mkViolation(fmt.Sprintf("C20|text-stays-valid|format|value=%d|frac=%v|then=%d", pv, pf, v), "text-stays-valid",
			fmt.Sprintf("the text %q returned for %d changed to %q after formatting %d (returned strings alias a reused buffer)", was, pv, now, v),
			c20case{Kind: "format-pair", Value: pv, Frac: pf, Value2: v})
	}
	c20prevText, c20prevCopy, c20prevVal, c20prevFrac = text, strings.Clone(text), v, frac
	mk := func(clause, detail string) *Violation {
		return mkViolation(fmt.Sprintf("C20|%s|format|value=%d|frac=%v", clause, v, frac), clause, detail, c20case{Kind: "format", Value: v, Frac: frac})
	}
	if pan != "" {
		return mk("formatter-total", fmt.Sprintf("SmartDurationStringEx(%d, %v) panicked: %s", v, frac, firstLine(pan)))
	}
	back, err := slog.VerifParseDuration(text)
	if err != nil {
		return mk("invertible", fmt.Sprintf("formatted %d as %q, which the parser rejects: %v", v, text, err))
	}
	if int64(back) != v {
		return mk("invertible", fmt.Sprintf("formatted %d as %q, which parses back to %d", v, text, int64(back)))
	}
	return nil
}

var c20units = map[string]int64{"ns": 1, "us": 1e3, "µs": 1e3, "μs": 1e3, "ms": 1e6, "s": 1e9, "m": 60e9, "h": 3600e9, "d": 86400e9}

var c20bigWrapped bool

// bigParse is the exact reference evaluator of the duration grammar (with d = 24h).
func bigParse(s string) (int64, bool) {
	c20bigWrapped = false
	neg := false
	if s != "" && (s[0] == '-' || s[0] == '+') {
		neg = s[0] == '-'
		s = s[1:]
	}
	if s == "0" {
		return 0, true
	}
	if s == "" {
		return 0, false
	}
	limit := new(big.Int).Lsh(big.NewInt(1), 63)
	total := new(big.Int)
	for s != "" {
		if !(s[0] == '.' || s[0] >= '0' && s[0] <= '9') {
			return 0, false
		}
		i := 0
		for i < len(s) && s[i] >= '0' && s[i] <= '9' {
			i++
		}
		ip := s[:i]
		s = s[i:]
		v := new(big.Int)
		if ip != "" {
			v.SetString(ip, 10)
			if v.Cmp(limit) > 0 {
				return 0, false
			}
		}
		fp := ""
		hasDot := false
		if s != "" && s[0] == '.' {
			hasDot = true
			s = s[1:]
			j := 0
			for j < len(s) && s[j] >= '0' && s[j] <= '9' {
				j++
			}
			fp = s[:j]
			s = s[j:]
		}
		_ = hasDot
		if ip == "" && fp == "" {
			return 0, false
		}
		j := 0
		for j < len(s) && !(s[j] == '.' || s[j] >= '0' && s[j] <= '9') {
			j++
		}
		if j == 0 {
			return 0, false
		}
		unit, ok := c20units[s[:j]]
		s = s[j:]
		if !ok {
			return 0, false
		}
		bu := big.NewInt(unit)
		// overflow test of the reference grammar: v > (1<<63)/unit
		q := new(big.Int).Quo(limit, bu)
		if v.Cmp(q) > 0 {
			return 0, false
		}
		v.Mul(v, bu)
		if fp != "" {
			f := new(big.Int)
			f.SetString(fp, 10)
			if f.Sign() > 0 {
				scale := new(big.Int).Exp(big.NewInt(10), big.NewInt(int64(len(fp))), nil)
				f.Mul(f, bu)
				f.Quo(f, scale)
				v.Add(v, f)
				if v.Cmp(limit) > 0 {
					return 0, false
				}
			}
		}
		total.Add(total, v)
		if total.Cmp(limit) > 0 {
			if total.BitLen() > 64 {
				c20bigWrapped = true // the sum leaves 64 bits: the standard parser's unsigned sum wraps around there
			}
			return 0, false
		}
	}
	if neg {
		total.Neg(total)
		return total.Int64(), true
	}
	if total.Cmp(big.NewInt(math.MaxInt64)) > 0 {
		return 0, false
	}
	return total.Int64(), true
}

// c20longFraction: the text has a fraction of more than 9 digits. The standard parser evaluates fractions in float64, the
// exact evaluator does not round; beyond 9 digits (10^k no longer divides the unit) the two may differ by a tick, e.g. "-2.50000000000000us" is -2499 there. The oracle for day-free texts is the standard
// parser itself - the exact evaluator is only cross-checked against it where both are exact.
func c20longFraction(s string) bool {
	run, in := 0, false
	for i := 0; i < len(s); i++ {
		switch {
		case s[i] == '.':
			in, run = true, 0
		case in && s[i] >= '0' && s[i] <= '9':
			run++
			if run > 9 {
				return true
			}
		default:
			in = false
		}
	}
	return false
}

// c20evalParse returns (violation, oracleProblem)
func c20evalParse(s string) (*Violation, string) {
	var got time.Duration
	var gerr error
	pan := catch(func() { got, gerr = slog.VerifParseDuration(s) })
	mk := func(clause, detail string) *Violation {
		return mkViolation(fmt.Sprintf("C20|%s|parse|%q", clause, s), clause, detail, c20case{Kind: "parse", Text: s})
	}
	if pan != "" {
		return mk("parser-total", fmt.Sprintf("ParseDuration(%q) panicked: %s", s, firstLine(pan))), ""
	}
	bv, bok := bigParse(s)
	if !strings.Contains(s, "d") {
		sv, serr := time.ParseDuration(s)
		if ((serr == nil) != bok || (bok && int64(sv) != bv)) && !c20longFraction(s) && !c20bigWrapped {
			// the exact evaluator disagrees with the standard parser: that is a problem of the oracle, not of logg
			return nil, fmt.Sprintf("reference evaluator disagrees with time.ParseDuration on %q: std (%d,%v) big (%d,%v)", s, int64(sv), serr, bv, bok)
		}
		if (gerr == nil) != (serr == nil) {
			return mk("same-accept-reject", fmt.Sprintf("ParseDuration(%q): logg err=%v, time.ParseDuration err=%v", s, gerr, serr)), ""
		}
		if gerr == nil && got != sv {
			return mk("same-value", fmt.Sprintf("ParseDuration(%q): logg %d, time.ParseDuration %d", s, int64(got), int64(sv))), ""
		}
		return nil, ""
	}
	if c20bigWrapped {
		return nil, "" // a sum beyond 64 bits: the standard parser wraps around there; with a day component no reference is fixed
	}
	if (gerr == nil) != bok {
		return mk("day-unit-accept-reject", fmt.Sprintf("ParseDuration(%q): logg err=%v, exact evaluator (d=24h) accepts=%v", s, gerr, bok)), ""
	}
	if bok && int64(got) != bv {
		return mk("day-unit-value", fmt.Sprintf("ParseDuration(%q): logg %d, exact evaluator (d=24h) %d", s, int64(got), bv)), ""
	}
	return nil, ""
}

var c20alphabet = []string{"0", "1", "5", "9", ".", "-", "+", "h", "m", "s", "n", "u", "µ", "d", " ", "x", "\u03bc", "\xff", "\xc3", "\xe2\x82",
	"9223372036854775807", "9223372036854775808", "2562047", "106751", "106752"}

func init() {
	register(&CheckDef{ID: "C20", Run: c20run, Replay: func(raw json.RawMessage) *Violation {
		var cas c20case
		if json.Unmarshal(raw, &cas) != nil {
			return nil
		}
		if cas.Kind == "format" {
			return c20evalFormat(cas.Value, cas.Frac)
		}
		if cas.Kind == "format-pair" {
			c20prevCopy = ""
			if v := c20evalFormat(cas.Value, cas.Frac); v != nil {
				return v
			}
			return c20evalFormat(cas.Value2, cas.Frac)
		}
		v, _ := c20evalParse(cas.Text)
		return v
	}})
}

func c20run(c *Ctx) {
	c.Flag("exhaustive", true)
	W := int64(1000000)
	maxLen := 5
	if c.Thorough() {
		W = 20000000
		maxLen = 6
	}
	c.Info("window_half_width", W)
	c.Info("parser_max_symbols", maxLen)
	// ---- (a) formatter windows
	centers := []int64{0, 1e3, 1e6, 1e9, 60e9, 3600e9, 86400e9, math.MinInt64, math.MaxInt64, -1e9, -86400e9, 10 * 86400e9, 100 * 86400e9, 105 * 86400e9, 1 << 53, -(1 << 53), 1000 * 86400e9, 36525 * 86400e9, 106751 * 86400e9, -106751 * 86400e9}
	distinct := map[string]struct{}{}
	for ci, ctr := range centers {
		lo, hi := ctr-W, ctr+W
		if ctr < math.MinInt64+W {
			lo, hi = math.MinInt64, math.MinInt64+2*W
		}
		if ctr > math.MaxInt64-W {
			lo, hi = math.MaxInt64-2*W, math.MaxInt64
		}
		// each worker takes a contiguous slice of the window
		span := (hi - lo + 1)
		per := span / int64(c.NShards)
		a := lo + per*int64(c.Shard)
		b := a + per - 1
		if c.Shard == c.NShards-1 {
			b = hi
		}
		for v := a; ; v++ {
			for _, fr := range []bool{false, true} {
				c.Count("evaluations", 1)
				c.Count("formatter_values", 1)
				if vi := c20evalFormat(v, fr); vi != nil {
					c.Violate(vi)
				}
			}
			if v == b {
				break
			}
			if (v&0xfffff == 0 || c.stop) && c.Expired() {
				break
			}
		}
		if ci == 0 && c.Shard == 0 {
			c.Sample(map[string]any{"kind": "format-window", "center": ctr, "from": lo, "to": hi, "example": slog.VerifSmartDurationStringEx(time.Duration(ctr+12345), false)})
		}
	}
	// ---- (a1b) every whole-day and whole-hour boundary of the range, both signs, a few ns to each side
	dayW, hourW, minW := int64(64), int64(2), int64(-1)
	if c.Thorough() {
		dayW, hourW, minW = 2048, 16, 1
	}
	sweep := func(unit int64, w int64, label string) {
		if w < 0 {
			return
		}
		maxN := math.MaxInt64 / unit
		per := maxN/int64(c.NShards) + 1
		from, to := per*int64(c.Shard)+1, per*int64(c.Shard+1)
		if to > maxN {
			to = maxN
		}
		for N := from; N <= to; N++ {
			base := N * unit
			for d := -w; d <= w; d++ {
				v := base + d
				if v < base && d > 0 { // overflow
					break
				}
				for _, fr := range []bool{false, true} {
					c.Count("evaluations", 2)
					c.Count("formatter_boundary_values_"+label, 2)
					if vi := c20evalFormat(v, fr); vi != nil {
						c.Violate(vi)
					}
					if vi := c20evalFormat(-v, fr); vi != nil {
						c.Violate(vi)
					}
				}
			}
			if (N&0xfff == 0 || c.stop) && c.Expired() {
				c.Flag("exhaustive", false)
				return
			}
		}
	}
	sweep(86400e9, dayW, "day")
	sweep(3600e9, hourW, "hour")
	sweep(60e9, minW, "minute")
	c.Info("boundary_half_widths_day_hour_minute", fmt.Sprint(dayW, hourW, minW))
	// ---- (a2) component product
	n := 0
	for _, days := range []int64{0, 1, 9, 10, 99, 104, 105, 1000, 50000, 106751} {
		for _, hours := range []int64{0, 1, 9, 10, 23} {
			for _, mins := range []int64{0, 1, 9, 10, 59} {
				for _, secs := range []int64{0, 1, 9, 10, 59} {
					for _, ms := range []int64{0, 1, 9, 10, 99, 100, 999} {
						for _, us := range []int64{0, 1, 9, 10, 99, 100, 999} {
							for _, ns := range []int64{0, 1, 9, 10, 99, 100, 999} {
								n++
								if !c.Mine(n) {
									continue
								}
								bv := new(big.Int).SetInt64(days)
								bv.Mul(bv, big.NewInt(86400e9))
								rest := hours*3600e9 + mins*60e9 + secs*1e9 + ms*1e6 + us*1e3 + ns
								bv.Add(bv, big.NewInt(rest))
								if !bv.IsInt64() {
									continue
								}
								v := bv.Int64()
								for _, sign := range []int64{1, -1} {
									for _, fr := range []bool{false, true} {
										c.Count("evaluations", 1)
										c.Count("formatter_component_cases", 1)
										if vi := c20evalFormat(sign*v, fr); vi != nil {
											c.Violate(vi)
										} else if len(distinct) < 50000 {
											distinct[slog.VerifSmartDurationStringEx(time.Duration(sign*v), fr)] = struct{}{}
										}
									}
								}
							}
						}
					}
				}
			}
		}
	}
	// ---- (b0) parser: the ends of the range written with a fraction in every decimal unit, and long digit strings
	if c.Shard == 0 {
		var extra []string
		for _, mag := range []string{"9223372036854775807", "9223372036854775808", "9223372036854775809", "9223372036854775800"} {
			for _, u := range []struct {
				unit string
				k    int
			}{{"ns", 0}, {"us", 3}, {"\u00b5s", 3}, {"ms", 6}, {"s", 9}} {
				t := mag
				if u.k > 0 {
					t = mag[:len(mag)-u.k] + "." + mag[len(mag)-u.k:]
				}
				for _, sign := range []string{"", "-", "+"} {
					extra = append(extra, sign+t+u.unit, sign+"0"+t+u.unit, sign+t+"0"+u.unit)
				}
			}
		}
		for _, z := range []int{1, 18, 19, 20, 21, 300} {
			zs := strings.Repeat("0", z)
			extra = append(extra, zs+"1s", zs+"9223372036854775807ns", "-"+zs+"9223372036854775808ns", zs+"5m", "1."+zs+"1h", zs+"."+zs+"5s", "1.5h30m", "-0.25h10m", "1.000001s5ms")
		}
		// long fractions (the digits beyond what an int64 scale can hold), on every day-free unit
		for _, u := range []string{"ns", "us", "\u00b5s", "ms", "s", "m", "h"} {
			for k := 1; k <= 26; k++ {
				extra = append(extra, "0."+strings.Repeat("9", k)+u, "1."+strings.Repeat("0", k-1)+"1"+u, "0.0"+"12345678901234567890123456"[:k]+u, "-2."+"50000000000000000000000000"[:k]+u)
			}
			extra = append(extra, "0."+strings.Repeat("0123456789", 7)[:64]+u, "3."+strings.Repeat("9", 64)+u, "0."+strings.Repeat("0", 64)+u)
		}
		// several components, each in range, whose sum leaves the range (and may wrap back into it)
		big := []string{"9223372036854775807ns", "9223372036854775806ns", "4611686018427387904ns", "2562047h", "1ns", "3ns"}
		var seqs func(prefix string, n int)
		seqs = func(prefix string, n int) {
			if n == 0 {
				return
			}
			for _, b := range big {
				extra = append(extra, prefix+b, "-"+prefix+b)
				seqs(prefix+b, n-1)
			}
		}
		seqs("", 4)
		for _, s := range extra {
			c.Count("evaluations", 1)
			c.Count("parser_extreme_strings", 1)
			v, op := c20evalParse(s)
			if op != "" {
				c.Note("oracle self-check failed (not a violation): " + op)
				c.Flag("exhaustive", false)
			}
			if v != nil {
				c.Violate(v)
			}
		}
	}
	// ---- (b) parser: every string of up to maxLen symbols
	A := len(c20alphabet)
	idx := make([]int, maxLen)
	oracleProblems := 0
	var sb strings.Builder
	for L := 0; L <= maxLen; L++ {
		for i := range idx[:L] {
			idx[i] = 0
		}
		count := 0
		for {
			count++
			if c.Mine(count) {
				sb.Reset()
				for _, k := range idx[:L] {
					sb.WriteString(c20alphabet[k])
				}
				s := sb.String()
				c.Count("evaluations", 1)
				c.Count("parser_strings", 1)
				v, op := c20evalParse(s)
				if op != "" {
					oracleProblems++
					c.Note("oracle self-check failed (not a violation): " + op)
					c.Flag("exhaustive", false)
				}
				if v != nil {
					c.Violate(v)
				}
				if count%1500007 == 0 {
					c.Sample(map[string]any{"kind": "parse", "text": s})
				}
			}
			// next
			p := L - 1
			for p >= 0 {
				idx[p]++
				if idx[p] < A {
					break
				}
				idx[p] = 0
				p--
			}
			if p < 0 {
				break
			}
			if (count&0xfffff == 0 || c.stop) && c.Expired() {
				break
			}
		}
		if c.Expired() {
			break
		}
		c.Max("parser_length_completed", int64(L))
	}
	c.Count("distinct_nontrivial", int64(len(distinct)))
	for k := range distinct {
		c.Outcome(k)
	}
	c.Assume("parser strings are enumerated over a 21-symbol alphabet (digits 0,1,5,9, sign, '.', unit letters, space, 'x', five overflow-edge numbers as single symbols), not over all byte strings")
	c.Assume("for strings with the day unit the oracle is an exact math/big evaluator with d=24h, cross-checked against time.ParseDuration on every day-free string of the same enumeration")
}
