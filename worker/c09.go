package main

// C09 - history independence: a record's bytes depend only on that call.
// Shape H over call histories x environment choices of the pools: for every
// history h of other calls and every choice of which pooled object each
// Pool.Get returns, the probe's bytes must equal its bytes after the empty history.

import (
	"encoding/json"
	"errors"
	"fmt"
	"io"
	"path/filepath"
	"runtime"
	"strings"
	"time"
	"verif/shim/vsync"

	"github.com/hedzr/is/term/color"
	"github.com/hedzr/logg/slog"
	errorsv3 "gopkg.in/hedzr/errors.v3"

	"verif/engine/sched"
)

const (
	c09Colored = slog.Level(40)
	c09Unknown = slog.Level(77)
	c09FgOnly  = slog.Level(41) // registered with a foreground colour only
)

type c09call struct {
	Format string `json:"format"`
	Sev    int    `json:"severity"`
	Shape  string `json:"shape"`  // plain | attrs | rich | verb
	Target string `json:"target"` // probed | sibling | default
}

func (k c09call) String() string {
	return fmt.Sprintf("%s/%s/%s/%s", k.Target, k.Format, levelName(slog.Level(k.Sev)), k.Shape)
}

type c09case struct {
	History []c09call `json:"history"`
	Probe   c09call   `json:"probe"`
	Caller  bool      `json:"caller_flag"`
	ReentW  bool      `json:"reentrant_writer,omitempty"` // the probed logger's writer logs a side record before it reads its bytes
	Choices []int     `json:"choices,omitempty"`
}

// an errors.v3 error with stack info, created once at a source line different from every log call
var c09huge = strings.Repeat("0123456789abcdef", 100<<10/16)

var c09v3err = errorsv3.New("v3 error with stack")

type c09world struct {
	rec     *recorder
	loggers map[string]*slog.Entry
}

func c09new(caller bool, reentw ...bool) *c09world {
	resetGlobals()
	reentFormats = []string{"logfmt"}
	reentNoPoolChoice = true
	fl := (slog.LstdFlags | slog.LnoInterrupt) &^ slog.Lcaller
	if caller {
		fl |= slog.Lcaller | slog.LattrsR // (the inherit-attributes flag goes with the caller flag: both on or both off)
	}
	slog.SetFlags(fl)
	// the directory of this source file is a known path: the caller's file name then has a
	// privacy form that differs from its plain form wherever the worker runs
	if _, file, _, ok := runtime.Caller(0); ok {
		slog.AddKnownPathMapping(filepath.Dir(file), "$W")
	}
	_ = slog.RegisterLevel(c09Colored, "notice40", slog.RegWithColor(color.FgGreen, color.BgUnderline), slog.RegWithTreatedAsLevel(slog.InfoLevel))
	_ = slog.RegisterLevel(c09FgOnly, "fgonly41", slog.RegWithColor(color.FgBlue), slog.RegWithTreatedAsLevel(slog.InfoLevel))
	w := &c09world{rec: &recorder{}, loggers: map[string]*slog.Entry{}}
	mk := func(name string, l *slog.Entry) {
		var wr io.Writer = &plainW{name, w.rec}
		if len(reentw) > 0 && reentw[0] {
			wr = &reentW{plainW{name, w.rec}}
		}
		l.SetWriter(wr).SetErrorWriter(wr).SetLevel(slog.AlwaysLevel)
		w.loggers[name] = l
	}
	root := slog.VerifEntryOf(slog.New("root"))
	mk("probed", root.New("probed\x01\u00e9").SetAttrs(slog.NewAttr("own", 1), slog.NewAttr("own2", "two"), slog.Group("og", "m", 1, "l", 2)))
	mk("sibling", root.New("sibling").SetAttrs(slog.NewAttr("sib", "x"), slog.Group("sg", "a", 1)))
	// a child of the probed logger that binds one of its parent's keys again (it only ever logs in histories)
	mk("kid", w.loggers["probed"].New("kid").SetAttrs(slog.NewAttr("own", "kid-value"), slog.NewAttr("kk", 3)))
	mk("default", slog.VerifEntryOf(slog.Default()))
	return w
}

func (w *c09world) issue(k c09call) {
	l := w.loggers[k.Target]
	switch k.Format {
	case "json":
		l.SetJSONMode(true)
	case "logfmt":
		l.SetColorMode(false)
	default:
		l.SetColorMode(true)
	}
	sev := slog.Level(k.Sev)
	switch k.Shape {
	case "plain":
		l.WriteThru(bg, sev, fixedTime, 0, "plain message", nil)
	case "attrs":
		l.WriteThru(bg, sev, fixedTime, 0, "with attributes", slog.Attrs{slog.NewAttr("s", "a b"), slog.NewAttr("i", 42), slog.NewAttr("t", tsUTC), slog.NewAttr("d", time.Second)})
	case "rich":
		l.WriteThru(bg, sev, fixedTime, 0, "line one\nline two\nline three", slog.Attrs{slog.Group("g", "x", 1, slog.Group("h", "y", "z", "inner", errors.New("an error inside a group"))), slog.NewAttr("err", errors.New("boom")), slog.NewAttr("bytes", []byte("raw"))})
	case "zone-instant":
		// the same instant as every other record's, seen from a zone with a seconds offset (the flags ask for the instant's own zone)
		l.WriteThru(bg, sev, fixedTime.In(time.FixedZone("", 5*3600+30*60+15)), 0, "same instant, another zone", slog.Attrs{slog.NewAttr("t", fixedTime.In(time.FixedZone("", -3*3600)))})
	case "rich-eol":
		l.WriteThru(bg, sev, fixedTime, 0, "first line\nsecond line\n", slog.Attrs{slog.NewAttr("err", errors.New("boom")), slog.NewAttr("k", 1)})
	case "egroup":
		// an empty group that sorts last, and one in the middle
		l.WriteThru(bg, sev, fixedTime, 0, "with empty groups", slog.Attrs{slog.NewAttr("a", 1), slog.Group("m"), slog.NewAttr("n", 2), slog.NewAttr("ag", slog.Attrs{slog.NewAttr("id", 7), slog.NewAttr("in", slog.Attrs{slog.NewAttr("x", 1)})}), slog.Group("zone")})
	case "egroup-x17":
		// the same small record seventeen times in a row (empty groups of both kinds): state that needs a longer life
		// than a handful of calls. The pool hands the stored context back during the run (no choice points inside it).
		prev := vsync.NoPoolChoice
		vsync.NoPoolChoice = true
		for i := 0; i < 17; i++ {
			l.WriteThru(bg, sev, fixedTime, 0, "again", slog.Attrs{slog.NewAttr("e", slog.Attrs{}), slog.Group("g"), slog.NewAttr("i", i)})
		}
		vsync.NoPoolChoice = prev
	case "huge":
		// a record far beyond any buffer size a pool may want to keep (a dumped payload)
		l.WriteThru(bg, sev, fixedTime, 0, "a dumped payload follows", slog.Attrs{slog.NewAttr("body", c09huge), slog.NewAttr("after", 1)})
	case "reent":
		// a value that logs a record with nested groups on a side logger while this record is being formatted
		l.WriteThru(bg, sev, fixedTime, 0, "re-entrant\nvalue", slog.Attrs{slog.NewAttr("a", 1), slog.Group("alpha", "p", 1, slog.Group("inner", "v", reentV{"text"}, "w", 2), "q", 3), slog.NewAttr("z", "last")})
	case "verb-small":
		// few attributes (size-dependent recycling of the per-call attribute slice)
		switch sev {
		case slog.ErrorLevel:
			l.Error("small verb", "q", 7)
		case slog.TraceLevel:
			l.Trace("small verb")
		default:
			l.LogAttrs(bg, sev, "small verb", "q", 7)
		}
	case "value-panics":
		// a call that does not complete: a value inside a nested group panics while it is formatted; the caller recovers
		func() {
			defer func() { _ = recover() }()
			l.LogAttrs(bg, sev, "a value panics\nsecond line", "a", 1, slog.Group("peer", "x", 1, slog.Group("in", "v", panicV{}, "w", 2)), "z", 3)
		}()
	case "value-panics-x9":
		// nine calls in a row that do not complete (each recovered by its caller)
		prev := vsync.NoPoolChoice
		vsync.NoPoolChoice = true
		for i := 0; i < 9; i++ {
			func() {
				defer func() { _ = recover() }()
				l.WriteThru(bg, sev, fixedTime, 0, "a value panics", slog.Attrs{slog.NewAttr("a", i), slog.Group("peer", "v", panicV{}), slog.NewAttr("z", 3)})
			}()
		}
		vsync.NoPoolChoice = prev
	case "verb-scoped-flags":
		// the verb path while the path-privacy and caller flags are toggled inside a SaveFlagsAndMod scope
		var restore func()
		if slog.IsAnyBitsSet(slog.Lprivacypath) {
			restore = slog.SaveFlagsAndMod(slog.Lcaller, slog.Lprivacypath|slog.Lprivacypathregexp)
		} else {
			restore = slog.SaveFlagsAndMod(slog.Lcaller | slog.Lprivacypath | slog.Lprivacypathregexp)
		}
		l.LogAttrs(bg, sev, "via verb, flags changed for this call only", "k", 1)
		restore()
	case "verb":
		// through the verb path (collectArgs, the attribute pool, the time seam)
		l.LogAttrs(bg, sev, "via verb", "k", 1, slog.Group("g", "x", 1), "z", "last", "e3", c09v3err)
	}
}

func c09calls(thorough bool) (hist, probes []c09call) {
	sevs := []slog.Level{slog.InfoLevel, slog.ErrorLevel, slog.TraceLevel, c09Colored, c09Unknown, c09FgOnly}
	for _, f := range []string{"color", "json", "logfmt"} {
		for _, s := range sevs {
			for _, sh := range []string{"plain", "attrs", "rich", "rich-eol", "egroup", "verb", "verb-small", "reent"} {
				probes = append(probes, c09call{f, int(s), sh, "probed"})
			}
		}
	}
	// history alphabet: a representative subset issued on the probed logger, a sibling and the default logger
	for _, f := range []string{"color", "json", "logfmt"} {
		for _, s := range []slog.Level{slog.ErrorLevel, c09Colored, slog.TraceLevel} {
			for _, sh := range []string{"rich", "rich-eol", "egroup", "verb", "verb-small", "plain", "reent", "verb-scoped-flags", "value-panics", "zone-instant", "huge", "egroup-x17", "value-panics-x9"} {
				if sh == "egroup-x17" && (s != slog.ErrorLevel || !thorough && f != "json") {
					continue
				}
				if sh == "value-panics-x9" && (s != slog.ErrorLevel || !thorough && f != "logfmt") {
					continue
				}
				if sh == "huge" && (s != slog.ErrorLevel || !thorough && f != "color") {
					continue
				}
				if sh == "zone-instant" && (s != slog.ErrorLevel || !thorough && f == "logfmt") {
					continue
				}
				if sh == "value-panics" && (s != slog.ErrorLevel || !thorough && f == "json") {
					continue
				}
				if sh == "reent" && (s != slog.ErrorLevel || !thorough && f == "json") {
					continue
				}
				if sh == "verb-scoped-flags" && (s != slog.ErrorLevel || !thorough && f != "json") {
					continue
				}
				if !thorough && (sh == "plain" || sh == "verb-small") && s != slog.TraceLevel && s != slog.ErrorLevel {
					continue
				}
				for _, tg := range []string{"probed", "sibling", "default"} {
					if !thorough && sh == "value-panics-x9" && tg != "probed" {
						continue
					}
					if !thorough && (sh == "huge" || sh == "egroup-x17") && tg != "sibling" {
						continue
					}
					if !thorough && tg == "default" && f != "color" {
						continue
					}
					hist = append(hist, c09call{f, int(s), sh, tg})
				}
				if (sh == "verb" || sh == "verb-small" && thorough) && s == slog.ErrorLevel && (thorough || f == "logfmt") {
					hist = append(hist, c09call{f, int(s), sh, "kid"})
				}
			}
		}
	}
	return
}

// c09runSeq runs history+probe under the scheduler with the given choices and returns the probe's payload.
func c09runSeq(cas c09case, prefix []int) (x *sched.Execution, payload string, nwrites int) {
	var w *c09world
	body := func() {
		w = c09new(cas.Caller, cas.ReentW)
		slog.VerifNowHook = func() time.Time { return fixedTime }
		for _, h := range cas.History {
			w.issue(h)
		}
		w.rec.reset()
		w.issue(cas.Probe)
	}
	x = sched.Execute(prefix, 100000, []func(){body})
	slog.VerifNowHook = nil
	if w != nil {
		nwrites = len(w.rec.events)
		if nwrites > 0 {
			payload = w.rec.events[0].Payload
		}
	}
	return
}

var c09baseline = map[string]string{}

func c09base(p c09call, caller bool) string {
	k := fmt.Sprint(p, caller)
	if b, ok := c09baseline[k]; ok {
		return b
	}
	_, payload, _ := c09runSeq(c09case{Probe: p, Caller: caller}, nil)
	c09baseline[k] = payload
	return payload
}

func c09violation(cas c09case, x *sched.Execution, got, want string) *Violation {
	cc := cas
	cc.Choices = x.Choices()
	var hs []string
	for _, h := range cas.History {
		hs = append(hs, h.String())
	}
	var ch []string
	for i, p := range x.Points {
		if p.Chosen != 0 {
			ch = append(ch, fmt.Sprintf("#%d %s alt %d/%d", i, p.Kind, p.Chosen, p.N))
		}
	}
	sig := fmt.Sprintf("C09|bytes-depend-on-history|probe=%s|history=%s|caller=%v|reentw=%v|choices=%s", cas.Probe, strings.Join(hs, ";"), cas.Caller, cas.ReentW, strings.Join(ch, ","))
	return mkViolation(sig, "bytes-depend-on-history",
		fmt.Sprintf("probe %s after history [%s] (pool choices: %v) produced %.300q; after the empty history it is %.300q", cas.Probe, strings.Join(hs, "; "), ch, got, want), cc)
}

func init() {
	register(&CheckDef{ID: "C09", Run: c09run, Replay: func(raw json.RawMessage) *Violation {
		var cas c09case
		if json.Unmarshal(raw, &cas) != nil {
			return nil
		}
		want := c09base(cas.Probe, cas.Caller)
		x, got, n := c09runSeq(cas, cas.Choices)
		x2, got2, _ := c09runSeq(cas, cas.Choices)
		if got != got2 || fmt.Sprint(x.Choices()) != fmt.Sprint(x2.Choices()) {
			return nil
		}
		if n == 1 && got == want {
			return nil
		}
		return c09violation(cas, x, got, want)
	}})
}

func c09run(c *Ctx) {
	c.Flag("exhaustive", true)
	maxLen := 2
	if c.Thorough() {
		maxLen = 3
	}
	hist, probes := c09calls(c.Thorough())
	c.Info("history_alphabet", len(hist))
	c.Info("probe_alphabet", len(probes))
	var histories [][]c09call
	var rec func(p []c09call)
	rec = func(p []c09call) {
		if len(p) > 0 {
			histories = append(histories, append([]c09call{}, p...))
		}
		if len(p) == maxLen {
			return
		}
		for _, h := range hist {
			if len(p) == 2 && h.Shape != "rich" && h.Shape != "reent" && h.Shape != "value-panics" && h.Shape != "zone-instant" && h.Shape != "verb-scoped-flags" && h.Shape != "verb" && h.Shape != "verb-small" && h.Shape != "egroup" && h.Shape != "rich-eol" {
				continue // third history element: the shapes that touch the most state
			}
			if !c.Thorough() && len(p) == 1 && (h.Shape == "huge" || h.Shape == "egroup-x17" || h.Shape == "value-panics-x9" || h.Target == "kid") {
				continue // quick: these only as the first element of a history
			}
			if !c.Thorough() && len(p) == 1 && (h.Shape == "plain" || (h.Shape == "rich" || h.Shape == "rich-eol" || h.Shape == "egroup") && h.Target != "probed" || slog.Level(h.Sev) == slog.TraceLevel) {
				continue // quick: second history element from the state-heavy half of the alphabet
			}
			rec(append(p, h))
		}
	}
	histories = append(histories, nil) // the empty history (with the re-entrant writer; without it, it is the baseline itself)
	rec(nil)
	c.Info("histories", len(histories))
	n := 0
	maxPts := 0
	testMode := slog.VerifInTesting()
	c.Info("go_test_mode", testMode)
	for hi, h := range histories {
		if testMode && !c.Thorough() && len(h) >= 2 && hi%8 != 0 {
			continue // the go-test-mode pass of the quick tier: every history of length <= 1, every eighth longer one
		}
		for pi, p := range probes {
			// histories of length 3: every probe meets every history in some caller setting; length <=2: both caller settings
			callers := []bool{false, true}
			if len(h) == 2 && !c.Thorough() {
				// quick: two-call histories meet every probe shape and format, with the caller flag alternating
				// and the severities that have / have no registered colours
				callers = []bool{(hi+pi)%2 == 0}
				if sv := slog.Level(p.Sev); sv == slog.InfoLevel || sv == slog.TraceLevel {
					continue
				}
				if (hi+pi)%4 >= 2 {
					continue // quick: every second pair of (history, probe) combinations - both caller settings stay represented
				}
			}
			if len(h) >= 3 {
				callers = []bool{(hi+pi)%2 == 0}
				if (hi+pi)%3 != 0 {
					continue
				}
			}
			for _, caller := range callers {
				n++
				if !c.Mine(n) {
					continue
				}
				if c.Expired() {
					return
				}
				cas := c09case{History: h, Probe: p, Caller: caller, ReentW: (hi+pi/2)%2 == 1 || len(h) == 0}
				want := c09base(p, caller)
				// DFS over every environment choice (unbounded: few points per sequence)
				var explore func(prefix []int) bool
				explore = func(prefix []int) bool {
					x, got, nw := c09runSeq(cas, prefix)
					c.Count("evaluations", 1)
					c.Count("transitions", int64(len(cas.History)+1))
					if len(x.Points) > maxPts {
						maxPts = len(x.Points)
					}
					if x.Panics[0] != "" || nw != 1 || got != want {
						if x.Panics[0] != "" {
							got = "PANIC " + firstLine(x.Panics[0])
						}
						c.Violate(c09violation(cas, x, got, want))
						if c.stop {
							return false
						}
					} else {
						c.Count("distinct_nontrivial", 1)
					}
					for i := len(prefix); i < len(x.Points); i++ {
						for alt := 1; alt < x.Points[i].N; alt++ {
							np := append(append(make([]int, 0, i+1), x.Choices()[:i]...), alt)
							if !explore(np) {
								return false
							}
						}
					}
					return true
				}
				if !explore(nil) {
					return
				}
				c.Outcome(want)
				if n%40009 == 0 {
					c.Sample(cas)
				}
			}
		}
	}
	if c.Shard == 0 {
		c.Count("states", int64(len(histories)))
	}
	c.Max("max_pool_choice_points", int64(maxPts))
	c.Assume("the global flags, the registry and the configuration of the probed logger are part of 'that call'; they are identical in both runs")
}
