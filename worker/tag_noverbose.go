//go:build !verbose

package main

const workerVerboseBuild = false
