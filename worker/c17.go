package main

// C17 - level names and the level registry. Shape H: BFS over RegisterLevel
// histories; after every transition: refusal leaves all tables unchanged, every
// level round-trips through its name / text / JSON forms, ShortTag widths, and a
// probe record at a newly registered level is gated and routed as registered.

import (
	"unicode/utf8"
	"encoding/json"
	"fmt"
	"strings"

	"github.com/hedzr/is/term/color"
	"github.com/hedzr/logg/slog"
)

type c17op struct {
	Val   int    `json:"value"`
	Title string `json:"title"`
	Opt   int    `json:"opt"`
}

var c17optNames = []string{"no options", "full short tags + colour", "partial short tags", "treated as Info", "treated as Error + error device",
	"error device option without argument", "error device (false,true)", "fg+bg colour + treated as Info + error device + full tags", "treated as Error + error device (true,false): an explicit no"}

type c17reg struct {
	title  string
	tags   [6]string
	treat  slog.Level // MaxLevel = none
	errDev bool
}

func c17opts(i int) (opts []slog.RegOpt, r c17reg) {
	r.treat = slog.MaxLevel
	full := [6]string{"", "N", " T", "NTC", " OK ", "  A  "} // correctly sized tags, some with leading / trailing blanks (like the built-in " OK ")
	partial := [6]string{"", "Q", "", "QQQ", "", ""}
	switch i {
	case 1:
		opts = append(opts, slog.RegWithShortTags(full), slog.RegWithColor(color.FgGreen))
		r.tags = full
	case 2:
		opts = append(opts, slog.RegWithShortTags(partial))
		r.tags = partial
	case 3:
		opts = append(opts, slog.RegWithTreatedAsLevel(slog.InfoLevel))
		r.treat = slog.InfoLevel
	case 4:
		opts = append(opts, slog.RegWithTreatedAsLevel(slog.ErrorLevel), slog.RegWithPrintToErrorDevice(true))
		r.treat, r.errDev = slog.ErrorLevel, true
	case 5:
		opts = append(opts, slog.RegWithPrintToErrorDevice())
	case 6:
		opts = append(opts, slog.RegWithPrintToErrorDevice(false, true))
		r.errDev = true
	case 7:
		opts = append(opts, slog.RegWithColor(color.FgYellow, color.BgUnderline), slog.RegWithTreatedAsLevel(slog.InfoLevel),
			slog.RegWithPrintToErrorDevice(true), slog.RegWithShortTags(full))
		r.tags, r.treat, r.errDev = full, slog.InfoLevel, true
	case 8:
		opts = append(opts, slog.RegWithTreatedAsLevel(slog.ErrorLevel), slog.RegWithPrintToErrorDevice(true, false)) // the last one wins: not requested
		r.treat, r.errDev = slog.ErrorLevel, false
	}
	return
}

var c17builtinNames = []string{"fail", "success", "ok", "always", "off", "no", "disabled", "trace", "debug", "devel", "dev", "develop", "info", "warn", "warning", "error", "fatal", "panic"}

type c17model struct {
	regs map[slog.Level]c17reg
}

func (m *c17model) titleInUse(t string) (exact, foldOnly bool) {
	for _, n := range c17builtinNames {
		if n == t {
			return true, false
		}
		if strings.EqualFold(n, t) {
			foldOnly = true
		}
	}
	for _, r := range m.regs {
		if r.title == t {
			return true, false
		}
		if strings.EqualFold(r.title, t) {
			foldOnly = true
		}
	}
	return false, foldOnly
}

func (m *c17model) valueInUse(v slog.Level) bool {
	for _, b := range builtinLevels {
		if b == v {
			return true
		}
	}
	_, ok := m.regs[v]
	return ok
}

type c17case struct {
	Ops []c17op `json:"ops"`
}

func c17roundTrips(l slog.Level) (clause, detail string) {
	name := l.String()
	var back slog.Level
	var err error
	pan := catch(func() { back, err = slog.ParseLevel(name) })
	if pan != "" {
		return "name-round-trip", fmt.Sprintf("ParseLevel(%q) panicked: %s", name, firstLine(pan))
	}
	if err != nil || back != l {
		return "name-round-trip", fmt.Sprintf("level %d prints as %q, ParseLevel gives (%d, %v)", int(l), name, int(back), err)
	}
	tb, err := l.MarshalText()
	if err != nil {
		return "text-round-trip", fmt.Sprintf("MarshalText of level %d: %v", int(l), err)
	}
	var l2 slog.Level = -12345
	if err := l2.UnmarshalText(tb); err != nil || l2 != l {
		return "text-round-trip", fmt.Sprintf("level %d marshals to text %q, UnmarshalText gives (%d, %v)", int(l), tb, int(l2), err)
	}
	// the level's own JSON methods, called directly: every name, whatever its bytes
	djb, err := l.MarshalJSON()
	if err != nil {
		return "json-round-trip", fmt.Sprintf("MarshalJSON of level %d: %v", int(l), err)
	}
	var ld slog.Level = -12345
	if err := ld.UnmarshalJSON(djb); err != nil || ld != l {
		return "json-round-trip", fmt.Sprintf("level %d: MarshalJSON gives %s, UnmarshalJSON of that gives (%d, %v)", int(l), djb, int(ld), err)
	}
	if !utf8.ValidString(name) {
		return "", "" // a JSON string cannot carry a name that is not valid UTF-8: encoding/json is not asked
	}
	jb, err := json.Marshal(l)
	if err != nil {
		return "json-round-trip", fmt.Sprintf("json.Marshal of level %d: %v", int(l), err)
	}
	var l3 slog.Level = -12345
	if err := json.Unmarshal(jb, &l3); err != nil || l3 != l {
		return "json-round-trip", fmt.Sprintf("level %d marshals to JSON %s, json.Unmarshal gives (%d, %v)", int(l), jb, int(l3), err)
	}
	// inside a struct as well
	type wrap struct {
		L slog.Level `json:"l"`
	}
	wb, _ := json.Marshal(wrap{l})
	var w2 wrap
	if err := json.Unmarshal(wb, &w2); err != nil || w2.L != l {
		return "json-round-trip", fmt.Sprintf("struct field with level %d marshals to %s, Unmarshal gives (%d, %v)", int(l), wb, int(w2.L), err)
	}
	return "", ""
}

func c17shortTags(l slog.Level, reg *c17reg) (clause, detail string) {
	for n := 1; n <= 5; n++ {
		var tag string
		pan := catch(func() { tag = l.ShortTag(n) })
		if pan != "" {
			return "short-tag", fmt.Sprintf("ShortTag(%d) of level %d panicked: %s", n, int(l), firstLine(pan))
		}
		if reg != nil && reg.tags[n] != "" {
			if tag != reg.tags[n] {
				return "short-tag", fmt.Sprintf("level %d registered with tag %q for width %d, ShortTag gives %q", int(l), reg.tags[n], n, tag)
			}
			continue
		}
		if len(tag) != n {
			return "short-tag", fmt.Sprintf("ShortTag(%d) of level %d (%q) is %q: %d characters", n, int(l), l.String(), tag, len(tag))
		}
	}
	return "", ""
}

func c17replay(cas c17case, checkAll bool) (*Violation, string) {
	resetGlobals()
	slog.AddFlags(slog.LnoInterrupt)
	m := &c17model{regs: map[slog.Level]c17reg{}}
	mk := func(clause, detail string, upto int) *Violation {
		cc := c17case{Ops: cas.Ops[:upto]}
		var t []string
		for _, o := range cc.Ops {
			t = append(t, fmt.Sprintf("RegisterLevel(%d,%q,%s)", o.Val, o.Title, c17optNames[o.Opt]))
		}
		return mkViolation("C17|"+clause+"|"+strings.Join(t, ";"), clause, detail+" [history: "+strings.Join(t, "; ")+"]", cc)
	}
	fullCheck := func(upto int) *Violation {
		for _, l := range slog.AllLevels() {
			if cl, d := c17roundTrips(l); cl != "" {
				return mk(cl, d, upto)
			}
			var reg *c17reg
			if r, ok := m.regs[l]; ok {
				reg = &r
			}
			if cl, d := c17shortTags(l, reg); cl != "" {
				return mk(cl, d, upto)
			}
		}
		for _, l := range []slog.Level{555, -3} { // unregistered levels
			if cl, d := c17shortTags(l, nil); cl != "" {
				return mk(cl, d, upto)
			}
		}
		// AllLevels = built-ins + registered, each once
		seen := map[slog.Level]int{}
		for _, l := range slog.AllLevels() {
			seen[l]++
		}
		for _, b := range builtinLevels {
			if seen[b] != 1 {
				return mk("all-levels", fmt.Sprintf("built-in level %d appears %d times in AllLevels()", int(b), seen[b]), upto)
			}
		}
		for l := range m.regs {
			if seen[l] != 1 {
				return mk("all-levels", fmt.Sprintf("registered level %d appears %d times in AllLevels()", int(l), seen[l]), upto)
			}
		}
		if len(seen) != len(builtinLevels)+len(m.regs) {
			return mk("all-levels", fmt.Sprintf("AllLevels() has %d distinct levels, reference %d", len(seen), len(builtinLevels)+len(m.regs)), upto)
		}
		return nil
	}
	if len(cas.Ops) == 0 || checkAll {
		if v := fullCheck(0); v != nil {
			return v, ""
		}
	}
	for i, o := range cas.Ops {
		opts, reg := c17opts(o.Opt)
		reg.title = o.Title
		lv := slog.Level(o.Val)
		before := slog.VerifDumpGlobals()
		var err error
		pan := catch(func() { err = slog.RegisterLevel(lv, o.Title, opts...) })
		if pan != "" {
			return mk("register-returns", "RegisterLevel panicked: "+firstLine(pan), i+1), ""
		}
		exact, fold := m.titleInUse(o.Title)
		mustRefuse := m.valueInUse(lv) || exact
		mayRefuse := mustRefuse || fold
		if err == nil && mustRefuse {
			return mk("refuses-duplicates", fmt.Sprintf("RegisterLevel(%d, %q) succeeded although the value or the title is already in use", o.Val, o.Title), i+1), ""
		}
		if err != nil && !mayRefuse {
			return mk("accepts-new", fmt.Sprintf("RegisterLevel(%d, %q) refused a free value and title: %v", o.Val, o.Title, err), i+1), ""
		}
		if err != nil {
			if after := slog.VerifDumpGlobals(); after != before {
				return mk("refusal-leaves-tables", fmt.Sprintf("a refused RegisterLevel(%d, %q) changed the tables", o.Val, o.Title), i+1), ""
			}
		} else {
			m.regs[lv] = reg
			// answers to its title
			got, perr := slog.ParseLevel(o.Title)
			if perr != nil || got != lv {
				return mk("answers-to-title", fmt.Sprintf("after RegisterLevel(%d, %q) ParseLevel(title) gives (%d, %v)", o.Val, o.Title, int(got), perr), i+1), ""
			}
			if lv.String() != o.Title {
				return mk("answers-to-title", fmt.Sprintf("level %d prints as %q, registered title %q", o.Val, lv.String(), o.Title), i+1), ""
			}
			// gating and routing of a probe record
			customs := map[slog.Level]slog.Level{}
			for l, r := range m.regs {
				if r.treat != slog.MaxLevel {
					customs[l] = r.treat
				}
			}
			for _, L := range []slog.Level{slog.ErrorLevel, slog.InfoLevel, slog.TraceLevel} {
				rec := &recorder{}
				lg := slog.New("p").SetWriter(&plainW{"normal", rec}).SetErrorWriter(&plainW{"error", rec}).SetColorMode(false)
				lg.SetLevel(L)
				slog.VerifRestoreModes(false, false)
				pan := catch(func() { lg.LogAttrs(bg, lv, "probe") })
				if pan != "" {
					return mk("probe-returns", "probe record panicked: "+firstLine(pan), i+1), ""
				}
				want, fixed := refAdmit(L, lv, false, customs)
				if !fixed {
					continue
				}
				if (len(rec.events) > 0) != want {
					return mk("gated-as-treated", fmt.Sprintf("level %d (%s) on a %s logger: reference admits=%v, written=%v", o.Val, c17optNames[o.Opt], levelName(L), want, len(rec.events) > 0), i+1), ""
				}
				if want {
					dest := "normal"
					if reg.errDev {
						dest = "error"
					}
					if len(rec.events) != 1 || rec.events[0].W != dest {
						return mk("routed-as-registered", fmt.Sprintf("level %d (%s): record went to %v, expected the %s writers", o.Val, c17optNames[o.Opt], rec.events, dest), i+1), ""
					}
				}
			}
		}
		if checkAll || i == len(cas.Ops)-1 {
			if v := fullCheck(i + 1); v != nil {
				return v, ""
			}
		}
	}
	return nil, slog.VerifDumpRegistry()
}

func c17alphabet(thorough bool, depth int) []c17op {
	vals := []int{-8, 0, 7, 8, 12, 18, 1000}
	titles := []string{"notice", "NOTICE", "Hint", "panic", "Panic", "warn", "warning", "", "x", `q"uo\te`, "tab\there", "404", "-7", "caf\xe9", "bell\x07"}
	opts := []int{0, 1, 2, 3, 4, 5, 6, 7, 8}
	if depth >= 3 {
		vals = []int{-8, 0, 12, 18}
		titles = []string{"notice", "NOTICE", "panic", "Hint"}
		opts = []int{0, 2, 4, 7, 8}
	}
	if depth >= 4 {
		vals = []int{-8, 12, 18}
		titles = []string{"notice", "NOTICE", "panic"}
		opts = []int{0, 7}
	}
	var ops []c17op
	for _, v := range vals {
		for _, t := range titles {
			for _, o := range opts {
				ops = append(ops, c17op{v, t, o})
			}
		}
	}
	return ops
}

func init() {
	register(&CheckDef{ID: "C17", Run: c17run, Replay: func(raw json.RawMessage) *Violation {
		var cas c17case
		if json.Unmarshal(raw, &cas) != nil {
			return nil
		}
		v, _ := c17replay(cas, true)
		return v
	}})
}

func c17run(c *Ctx) {
	c.Flag("exhaustive", true)
	maxDepth := 2
	if c.Thorough() {
		maxDepth = 4
	}
	seen := map[string]bool{}
	v, k := c17replay(c17case{}, true)
	if v != nil {
		c.Violate(v)
		return
	}
	seen[k] = true
	if c.Shard == 0 {
		c.Count("states", 1)
	}
	frontier := []c17case{{}}
	n := 0
	depthDone := 0
	for depth := 1; depth <= maxDepth; depth++ {
		// depths 1-2: the full alphabet; depth 3: the reduced one; depth 4: a smaller one still (thorough)
		ops := c17alphabet(false, depth)
		var next []c17case
		for _, h := range frontier {
			for _, o := range ops {
				n++
				if depth == 1 && !c.Mine(n) {
					continue
				}
				cas := c17case{Ops: append(append([]c17op{}, h.Ops...), o)}
				v, k := c17replay(cas, false)
				c.Count("transitions", 1)
				if v != nil {
					c.Violate(v)
					continue
				}
				c.Outcome(k)
				if seen[k] {
					continue
				}
				seen[k] = true
				c.Count("states", 1)
				next = append(next, cas)
			}
			if c.Expired() {
				break
			}
		}
		if c.Expired() {
			break
		}
		depthDone = depth
		frontier = next
		if depth == 1 && len(next) > 0 {
			c.Sample(next[len(next)/2])
		}
	}
	c.Max("depth_completed", int64(depthDone))
	c.Info("register_ops_per_depth", fmt.Sprint(len(c17alphabet(false, 1)), len(c17alphabet(false, 2)), len(c17alphabet(false, 3)), len(c17alphabet(false, 4))))
	c.Assume("a title that differs from a name in use only by letter case may be refused or accepted; either way every level must round-trip")
	c.Assume("titles are ASCII, one Latin-1 title that is not valid UTF-8 and one with a control byte (ShortTag widths are compared in bytes); encoding/json is asked for names that are valid UTF-8 only")
}
