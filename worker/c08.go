package main

// C08 - concurrent logging is race-free and never tears or loses a record.
// Shape S: every interleaving of small colliding scenarios at the hooked
// scheduling points (sync shim, attribute Key()/Value() callbacks - i.e. inside
// the sort/de-dupe/serialisation of shared attribute slices -, Write) with a
// bounded number of preemptions; plus the sequential "a log call does not
// mutate its shared inputs" invariant; plus a free-running -race pass.

import (
	"bytes"
	"context"
	"encoding/json"
	"errors"
	"fmt"
	"log"
	logslog "log/slog"
	"os"
	"os/exec"
	"regexp"
	"sort"
	"strings"
	"sync"
	"time"

	"github.com/hedzr/logg/slog"

	"verif/engine/sched"
)

// yAttr is a harness attribute whose accessors are scheduling points.
type yAttr struct {
	k string
	v any
}

func (a *yAttr) Key() string    { sched.Point("attr.Key"); return a.k }
func (a *yAttr) Value() any     { sched.Point("attr.Value"); return a.v }
func (a *yAttr) SetValue(v any) { a.v = v }

func ya(k string, v any) slog.Attr { return &yAttr{k, v} }

// lockedRec is the recording writer for the free-running pass.
type lockedRec struct {
	mu     sync.Mutex
	events []string
	norm   func(string) string // masks what differs between two builds of the same scenario (a random logger name)
}

// c08selfW is a destination that announces something through the logger it belongs to (at a severity that goes to the
// logger's other device) before it stores what it was given.
type c08selfW struct {
	rec *lockedRec
	l   *slog.Entry
}

func (w *c08selfW) Write(p []byte) (int, error) {
	w.l.Warn("destination reopened", "bytes", len(p) > 0)
	return w.rec.Write(p)
}

// c08failW fails every Write.
type c08failW struct{}

func (c08failW) Write(p []byte) (int, error) {
	sched.Point("Write")
	return 0, errors.New("destination is gone")
}

func (r *lockedRec) Write(p []byte) (int, error) {
	sched.Point("Write")
	r.mu.Lock()
	e := string(p)
	if r.norm != nil {
		e = r.norm(e)
	}
	r.events = append(r.events, e)
	r.mu.Unlock()
	return len(p), nil
}

var c08loggers []*slog.Entry

var c08loggerName = regexp.MustCompile(`"logger":"[^"]*"`)

type c08world struct {
	rec     *lockedRec
	shared  []slog.Attr // shared group attributes whose member order is snapshotted
	calls   [][]func()  // per thread, the calls
	writes  int         // Write calls one log call leads to (0 = 1; S18: the record and the destination's own notice)
	noDense bool        // not explored in the build with a scheduling point before every statement (too many points)
	snap    func() string
}

type c08scenario struct {
	name    string
	threads int
	build   func(threads, callsPer int) *c08world
}

func c08logger(name, format string, rec *lockedRec) *slog.Entry {
	l := slog.VerifEntryOf(slog.New(name))
	c08loggers = append(c08loggers, l)
	l.SetWriter(rec).SetErrorWriter(rec).SetLevel(slog.AlwaysLevel)
	switch format {
	case "json":
		l.SetJSONMode(true)
	case "logfmt":
		l.SetColorMode(false)
	default:
		l.SetColorMode(true)
	}
	return l
}

func groupOrder(a slog.Attr) string {
	var sb strings.Builder
	if items, ok := a.Value().(slog.Attrs); ok {
		for _, m := range items {
			if m == nil {
				sb.WriteString("<nil>,")
				continue
			}
			if y, ok := m.(*yAttr); ok {
				fmt.Fprintf(&sb, "%s=%v,", y.k, y.v)
			} else {
				fmt.Fprintf(&sb, "%s=%v,", m.Key(), m.Value())
			}
		}
	}
	return sb.String()
}

func c08scenarios() []c08scenario {
	perCall := func(t, i int) []any {
		return []any{ya(fmt.Sprintf("z%d", t), i), ya("b", fmt.Sprintf("t%d-c%d", t, i)), ya("a", t*10+i), ya("b", "dup-wins"), ya(fmt.Sprintf("k%d%d", t, i), true)}
	}
	return []c08scenario{
		{"S1 same JSON logger, per-call attributes", 0, func(th, cp int) *c08world {
			w := &c08world{rec: &lockedRec{}}
			l := c08logger("s1", "json", w.rec)
			l.SetAttrs(ya("la", 1), ya("lb", "two"), ya("lc", true))
			for t := 0; t < th; t++ {
				var cs []func()
				for i := 0; i < cp; i++ {
					t, i := t, i
					cs = append(cs, func() { l.Info(fmt.Sprintf("s1 thread %d call %d", t, i), perCall(t, i)...) })
				}
				w.calls = append(w.calls, cs)
			}
			return w
		}},
		{"S2 parent and child with LattrsR and logger-level attributes", 0, func(th, cp int) *c08world {
			w := &c08world{rec: &lockedRec{}}
			slog.AddFlags(slog.LattrsR)
			p := c08logger("s2p", "logfmt", w.rec)
			p.SetAttrs(ya("pz", 1), ya("pa", "x"), ya("shared", "parent"))
			ch := p.New("s2c")
			c08loggers = append(c08loggers, ch)
			ch.SetWriter(w.rec).SetErrorWriter(w.rec).SetAttrs(ya("cz", 2), ya("shared", "child"))
			ls := []*slog.Entry{p, ch, ch}
			for t := 0; t < th; t++ {
				var cs []func()
				for i := 0; i < cp; i++ {
					t, i := t, i
					l := ls[t%len(ls)]
					cs = append(cs, func() { l.Warn(fmt.Sprintf("s2 thread %d call %d", t, i), ya("own", t), ya("shared", "call")) })
				}
				w.calls = append(w.calls, cs)
			}
			return w
		}},
		{"S3 one unsorted Group value shared by the calls' arguments", 0, func(th, cp int) *c08world {
			w := &c08world{rec: &lockedRec{}}
			l := c08logger("s3", "logfmt", w.rec)
			g := slog.NewGroupedAttr("g", ya("c", 3), ya("a", 1), ya("b", 2), ya("a", 11))
			w.shared = []slog.Attr{g}
			for t := 0; t < th; t++ {
				var cs []func()
				for i := 0; i < cp; i++ {
					t, i := t, i
					cs = append(cs, func() { l.Info(fmt.Sprintf("s3 thread %d call %d", t, i), g, ya("t", t)) })
				}
				w.calls = append(w.calls, cs)
			}
			return w
		}},
		{"S4 logger-level group attribute printed by several threads", 0, func(th, cp int) *c08world {
			w := &c08world{rec: &lockedRec{}}
			l := c08logger("s4", "json", w.rec)
			g := slog.NewGroupedAttr("lg", ya("y", "why"), ya("x", "ex"), slog.NewGroupedAttr("in", ya("q", 2), ya("p", 1)))
			l.SetAttrs(g, ya("la", 1))
			w.shared = []slog.Attr{g}
			for t := 0; t < th; t++ {
				var cs []func()
				for i := 0; i < cp; i++ {
					t, i := t, i
					cs = append(cs, func() { l.Error(fmt.Sprintf("s4 thread %d call %d", t, i), ya("t", t)) })
				}
				w.calls = append(w.calls, cs)
			}
			return w
		}},
		{"S5 JSON, colored and logfmt loggers sharing the pools", 0, func(th, cp int) *c08world {
			w := &c08world{rec: &lockedRec{}}
			ls := []*slog.Entry{c08logger("s5j", "json", w.rec), c08logger("s5c", "color", w.rec), c08logger("s5l", "logfmt", w.rec)}
			ls[0].SetAttrs(ya("ja", 1), ya("jb", 2))
			ls[1].SetAttrs(ya("ca", 1), ya("cb", 2), ya("cc", 3))
			for t := 0; t < th; t++ {
				var cs []func()
				for i := 0; i < cp; i++ {
					t, i := t, i
					l := ls[t%3]
					msg := fmt.Sprintf("s5 thread %d call %d", t, i)
					if (t+i)%2 == 0 {
						msg += "\nwith a second line\n" // multi-line and single-line records alternate on the recycled contexts
					}
					cs = append(cs, func() {
						l.Info(msg, ya("b", t), ya("a", "x y"), slog.NewGroupedAttr("g", ya("m", 1)), slog.NewGroupedAttr("zz"))
					})
				}
				w.calls = append(w.calls, cs)
			}
			return w
		}},
		{"S6 multi-line message, error value and caller info", 0, func(th, cp int) *c08world {
			w := &c08world{rec: &lockedRec{}}
			slog.AddFlags(slog.Lcaller)
			ls := []*slog.Entry{c08logger("s6c", "color", w.rec), c08logger("s6j", "json", w.rec)}
			// every thread logs from its own call site (distinct source lines), so that a
			// caller attribution mixed up between threads is visible in the record
			sites := []func(l *slog.Entry, t, i int){
				func(l *slog.Entry, t, i int) {
					l.Error(fmt.Sprintf("s6 thread %d call %d\nsecond line\nthird", t, i), ya("err", errors.New("boom")), ya("n", t))
				},
				func(l *slog.Entry, t, i int) {
					l.Warn(fmt.Sprintf("s6 thread %d call %d\nsecond line\nthird", t, i), ya("err", errors.New("boom")), ya("n", t))
				},
				func(l *slog.Entry, t, i int) {
					l.InfoContext(bg, fmt.Sprintf("s6 thread %d call %d\nsecond line\nthird", t, i), ya("err", errors.New("boom")), ya("n", t))
				},
			}
			for t := 0; t < th; t++ {
				var cs []func()
				for i := 0; i < cp; i++ {
					t, i := t, i
					l := ls[t%2]
					site := sites[t%3]
					cs = append(cs, func() { site(l, t, i) })
				}
				w.calls = append(w.calls, cs)
			}
			return w
		}},
		{"S8 loggers with logger-level attributes logging without arguments next to a bare logger logging with arguments", 0, func(th, cp int) *c08world {
			w := &c08world{rec: &lockedRec{}}
			a := c08logger("s8a", "logfmt", w.rec)
			a.SetAttrs(ya("a1", 1), ya("a2", 2), ya("a3", 3))
			b := c08logger("s8b", "json", w.rec)
			ls := []*slog.Entry{a, b, a}
			for t := 0; t < th; t++ {
				var cs []func()
				for i := 0; i < cp; i++ {
					t, i := t, i
					l := ls[t%3]
					if l == a {
						cs = append(cs, func() { l.Info(fmt.Sprintf("s8 thread %d call %d", t, i)) })
					} else {
						cs = append(cs, func() { l.Info(fmt.Sprintf("s8 thread %d call %d", t, i), ya("x", t), ya("y", i), ya("z", "zed")) })
					}
				}
				w.calls = append(w.calls, cs)
			}
			return w
		}},
		{"S9 two colored loggers: multi-line records with a trailing newline next to single-line records", 0, func(th, cp int) *c08world {
			w := &c08world{rec: &lockedRec{}}
			ls := []*slog.Entry{c08logger("s9a", "color", w.rec), c08logger("s9b", "color", w.rec), c08logger("s9j", "json", w.rec)}
			for t := 0; t < th; t++ {
				var cs []func()
				for i := 0; i < cp; i++ {
					t, i := t, i
					l := ls[t%3]
					msg := fmt.Sprintf("s9 thread %d call %d", t, i)
					if (t+i)%2 == 0 {
						msg += "\nsecond line\nthird line\n"
					}
					cs = append(cs, func() { l.Warn(msg, ya("k", t), slog.NewGroupedAttr("g", ya("m", i))) })
				}
				w.calls = append(w.calls, cs)
			}
			return w
		}},
		{"S7 WriteThru with one caller-owned Attrs slice used by all threads", 0, func(th, cp int) *c08world {
			w := &c08world{rec: &lockedRec{}}
			l := c08logger("s7", "logfmt", w.rec)
			own := slog.Attrs{ya("d", 4), ya("b", 2), ya("c", 3), ya("a", 1), ya("b", 22)}
			holder := slog.NewGroupedAttr("holder", own...) // only used to snapshot the slice order
			_ = holder
			w.snap = func() string {
				var sb strings.Builder
				for _, m := range own {
					if m == nil {
						sb.WriteString("<nil>,")
						continue
					}
					y := m.(*yAttr)
					fmt.Fprintf(&sb, "%s=%v,", y.k, y.v)
				}
				return sb.String()
			}
			for t := 0; t < th; t++ {
				var cs []func()
				for i := 0; i < cp; i++ {
					t, i := t, i
					cs = append(cs, func() { l.WriteThru(bg, slog.InfoLevel, fixedTime, 0, fmt.Sprintf("s7 thread %d call %d", t, i), own) })
				}
				w.calls = append(w.calls, cs)
			}
			return w
		}},
		{"S10 records longer than 1 KB next to short ones", 0, func(th, cp int) *c08world {
			w := &c08world{rec: &lockedRec{}}
			ls := []*slog.Entry{c08logger("s10j", "json", w.rec), c08logger("s10l", "logfmt", w.rec)}
			long := strings.Repeat("0123456789abcdef", 90)   // 1440 bytes
			huge := strings.Repeat("0123456789abcdef", 4200) // 67 KB: still one Write per destination
			if strings.Contains(os.Getenv("VERIF_BIN"), "dense") || th*cp > 2 {
				// with a scheduling point before every statement a 67 KB value exceeds the step horizon; and the
				// larger shapes have too many executions to format 67 KB in each
				huge = long
			}
			for t := 0; t < th; t++ {
				var cs []func()
				for i := 0; i < cp; i++ {
					t, i := t, i
					l := ls[t%2]
					if t == 1 && i == 0 && len(huge) > len(long) {
						cs = append(cs, func() {
							l.Info(fmt.Sprintf("s10 thread %d call %d", t, i), ya("a", t), ya("huge", huge), ya("c", i))
						})
					} else if (t+i)%2 == 0 {
						cs = append(cs, func() {
							l.Info(fmt.Sprintf("s10 thread %d call %d", t, i), ya("a", t), ya("big", long), ya("c", i), ya("tail", long[:700]))
						})
					} else {
						cs = append(cs, func() { l.Info(fmt.Sprintf("s10 thread %d call %d", t, i), ya("a", t), ya("c", i)) })
					}
				}
				w.calls = append(w.calls, cs)
			}
			return w
		}},
		{"S11 blank Println and Print calls before the concurrent calls", 0, func(th, cp int) *c08world {
			w := &c08world{rec: &lockedRec{}}
			ls := []*slog.Entry{c08logger("s11j", "json", w.rec), c08logger("s11c", "color", w.rec)}
			ls[0].Println()
			ls[1].Print("")
			ls[0].Print("\n")
			w.rec.events = nil
			for t := 0; t < th; t++ {
				var cs []func()
				for i := 0; i < cp; i++ {
					t, i := t, i
					l := ls[t%2]
					cs = append(cs, func() { l.Info(fmt.Sprintf("s11 thread %d call %d", t, i), ya("b", t), ya("a", i)) })
				}
				w.calls = append(w.calls, cs)
			}
			return w
		}},
		{"S12 Infof, Warnf and Errorf on the same logger", 0, func(th, cp int) *c08world {
			w := &c08world{rec: &lockedRec{}}
			l := c08logger("s12", "json", w.rec)
			fs := []func(string, ...any) error{l.Infof, l.Warnf, l.Errorf}
			for t := 0; t < th; t++ {
				var cs []func()
				for i := 0; i < cp; i++ {
					t, i := t, i
					f := fs[(t+i)%3]
					cs = append(cs, func() { _ = f("s12 thread %d call %d: %s", t, i, strings.Repeat(string(rune('a'+t)), 8)) })
				}
				w.calls = append(w.calls, cs)
			}
			return w
		}},
		{"S13 groups nested two and three levels deep, a different one per thread", 0, func(th, cp int) *c08world {
			w := &c08world{rec: &lockedRec{}}
			ls := []*slog.Entry{c08logger("s13l", "logfmt", w.rec), c08logger("s13c", "color", w.rec)}
			names := []string{"alpha", "omega", "mu"}
			for t := 0; t < th; t++ {
				var cs []func()
				for i := 0; i < cp; i++ {
					t, i := t, i
					l := ls[t%2]
					n := names[t%3]
					cs = append(cs, func() {
						l.Info(fmt.Sprintf("s13 thread %d call %d", t, i),
							slog.NewGroupedAttr(n, ya("a", t), slog.NewGroupedAttr(n[:2]+"ner", ya("a", 1), ya("b", 2), slog.NewGroupedAttr("deep", ya("x", i), ya("y", t)), ya("c", 3)), ya("z", i)))
					})
				}
				w.calls = append(w.calls, cs)
			}
			return w
		}},
		{"S14 one derived log/slog handler with bound attributes used by all threads", 0, func(th, cp int) *c08world {
			w := &c08world{rec: &lockedRec{}}
			l := c08logger("s14", "json", w.rec)
			h := slog.NewSlogHandler(l, &slog.HandlerOptions{NoColor: true, JSON: true, NoSource: true, Level: slog.AlwaysLevel})
			h = h.WithAttrs([]logslog.Attr{logslog.Int("a1", 1), logslog.String("a2", "two")})
			w.rec.norm = func(e string) string { return c08loggerName.ReplaceAllString(e, `"logger":"*"`) } // the derived logger's name is random
			for t := 0; t < th; t++ {
				var cs []func()
				for i := 0; i < cp; i++ {
					t, i := t, i
					cs = append(cs, func() {
						r := logslog.NewRecord(fixedTime, logslog.LevelWarn, fmt.Sprintf("s14 thread %d call %d", t, i), 0)
						r.AddAttrs(logslog.Int("b", t), logslog.Int("c", i), logslog.String(fmt.Sprintf("d%d", t), "own"))
						_ = h.Handle(bg, r)
					})
				}
				w.calls = append(w.calls, cs)
			}
			return w
		}},
		{"S15 attribute objects built once by the caller (slog.String, slog.Int, NewAttr, Group) and passed to every call", 0, func(th, cp int) *c08world {
			w := &c08world{rec: &lockedRec{}}
			ls := []*slog.Entry{c08logger("s15j", "json", w.rec), c08logger("s15l", "logfmt", w.rec)}
			shared := []slog.Attr{slog.String("req", "id-1"), slog.Int("n", 7), slog.NewAttr("who", "me"), slog.Group("g", "x", 1, "y", "z")}
			w.snap = func() string {
				var sb strings.Builder
				for _, a := range shared {
					if a == nil {
						sb.WriteString("<nil>,")
						continue
					}
					fmt.Fprintf(&sb, "%s=%v,", a.Key(), a.Value())
				}
				return sb.String()
			}
			for t := 0; t < th; t++ {
				var cs []func()
				for i := 0; i < cp; i++ {
					t, i := t, i
					l := ls[t%2]
					cs = append(cs, func() {
						l.Info(fmt.Sprintf("s15 thread %d call %d", t, i), shared[0], "own", t, shared[1], shared[2], shared[3])
					})
				}
				w.calls = append(w.calls, cs)
			}
			return w
		}},
		{"S16 calls that repeat the keys of the logger's own attributes with plain key, value pairs", 0, func(th, cp int) *c08world {
			w := &c08world{rec: &lockedRec{}, noDense: true}
			ls := []*slog.Entry{c08logger("s16j", "json", w.rec), c08logger("s16l", "logfmt", w.rec)}
			ls[0].SetAttrs(slog.String("id", "logger-level"), slog.Int("n", 0))
			ls[1].Set("id", "logger-level", "who", "logger")
			for t := 0; t < th; t++ {
				var cs []func()
				for i := 0; i < cp; i++ {
					t, i := t, i
					l := ls[t%2]
					cs = append(cs, func() {
						l.Info(fmt.Sprintf("s16 thread %d call %d", t, i), "own", t, "id", fmt.Sprintf("call-%d-%d", t, i), ya("slow", i))
					})
				}
				w.calls = append(w.calls, cs)
			}
			return w
		}},
		{"S18 a destination that logs through the same logger from inside Write (a rotation notice at another severity)", 0, func(th, cp int) *c08world {
			w := &c08world{rec: &lockedRec{}, noDense: true, writes: 2}
			l := c08logger("s18", "logfmt", w.rec)
			l.SetWriter(&c08selfW{w.rec, l})
			for t := 0; t < th; t++ {
				var cs []func()
				for i := 0; i < cp; i++ {
					t, i := t, i
					cs = append(cs, func() { l.Info(fmt.Sprintf("s18 thread %d call %d", t, i), "k", t) })
				}
				w.calls = append(w.calls, cs)
			}
			return w
		}},
		{"S19 one thread logs records with sixty key, value pairs while the others log small ones", 0, func(th, cp int) *c08world {
			w := &c08world{rec: &lockedRec{}, noDense: true}
			l := c08logger("s19", "json", w.rec)
			var many []any
			for k := 0; k < 60; k++ {
				many = append(many, fmt.Sprintf("p%02d", k), k)
			}
			for t := 0; t < th; t++ {
				var cs []func()
				for i := 0; i < cp; i++ {
					t, i := t, i
					if t == 0 {
						cs = append(cs, func() { l.Info(fmt.Sprintf("s19 thread %d call %d", t, i), many...) })
					} else {
						cs = append(cs, func() { l.Info(fmt.Sprintf("s19 thread %d call %d", t, i), "k", t) })
					}
				}
				w.calls = append(w.calls, cs)
			}
			return w
		}},
		{"S20 two std loggers built on the writer of one std-log bridge", 0, func(th, cp int) *c08world {
			w := &c08world{rec: &lockedRec{}, noDense: true}
			l := c08logger("s20", "logfmt", w.rec)
			bridge := slog.NewLogLogger(l, slog.InfoLevel)
			stds := []*log.Logger{log.New(bridge.Writer(), "", 0), log.New(bridge.Writer(), "", 0), bridge}
			for t := 0; t < th; t++ {
				var cs []func()
				for i := 0; i < cp; i++ {
					t, i := t, i
					cs = append(cs, func() { stds[t%len(stds)].Print(fmt.Sprintf("s20 thread %d call %d", t, i)) })
				}
				w.calls = append(w.calls, cs)
			}
			return w
		}},
		{"S21 calls whose destination fails (the diagnostic goes to the other device); the process-wide flags are what they were", 0, func(th, cp int) *c08world {
			w := &c08world{rec: &lockedRec{}, noDense: true}
			l := c08logger("s21", "logfmt", w.rec)
			l.SetWriter(c08failW{})
			slog.AddFlags(slog.Lcaller)
			w.snap = func() string { return fmt.Sprintf("flags=%d", int64(slog.GetFlags())) }
			for t := 0; t < th; t++ {
				var cs []func()
				for i := 0; i < cp; i++ {
					t, i := t, i
					cs = append(cs, func() { l.Info(fmt.Sprintf("s21 thread %d call %d", t, i), "k", t) })
				}
				w.calls = append(w.calls, cs)
			}
			return w
		}},
		{"S17 a logger with registered context keys, every call with context values of its own", 0, func(th, cp int) *c08world {
			w := &c08world{rec: &lockedRec{}, noDense: true}
			l := c08logger("s17", "json", w.rec)
			l.SetContextKeys("request_id", ctxStringerKey{"trace"}, "absent")
			for t := 0; t < th; t++ {
				var cs []func()
				for i := 0; i < cp; i++ {
					t, i := t, i
					ctx := context.WithValue(context.WithValue(context.Background(), "request_id", fmt.Sprintf("req-%d-%d", t, i)), ctxStringerKey{"trace"}, 1000*t+i)
					cs = append(cs, func() { l.InfoContext(ctx, fmt.Sprintf("s17 thread %d call %d", t, i), "k", t, ya("slow", i)) })
				}
				w.calls = append(w.calls, cs)
			}
			return w
		}},
	}
}

func (w *c08world) snapshot() string {
	var sb strings.Builder
	for _, g := range w.shared {
		sb.WriteString(groupOrder(g))
		if items, ok := g.Value().(slog.Attrs); ok {
			for _, m := range items {
				if _, isG := m.Value().(slog.Attrs); isG {
					sb.WriteString("{" + groupOrder(m) + "}")
				}
			}
		}
		sb.WriteString("|")
	}
	if w.snap != nil {
		sb.WriteString(w.snap())
	}
	// the attributes of every logger of the scenario, in order
	for _, l := range c08loggers {
		sb.WriteString("[" + l.Name() + ":")
		for _, a := range slog.VerifInfo(l).Attrs {
			switch z := a.(type) {
			case nil:
				sb.WriteString("<nil>,")
			case *yAttr:
				fmt.Fprintf(&sb, "%s=%v,", z.k, z.v)
			default:
				if _, isG := a.Value().(slog.Attrs); isG {
					sb.WriteString(a.Key() + "{" + groupOrder(a) + "},")
				} else {
					fmt.Fprintf(&sb, "%s=%v,", a.Key(), a.Value())
				}
			}
		}
		sb.WriteString("]")
	}
	return sb.String()
}

func c08prepare() {
	resetGlobals()
	c08loggers = nil
	slog.SetFlags((slog.LstdFlags | slog.LnoInterrupt) &^ slog.Lcaller)
	slog.VerifNowHook = func() time.Time { return fixedTime }
}

type c08case struct {
	Scenario int    `json:"scenario"`
	Threads  int    `json:"threads"`
	Calls    int    `json:"calls_per_thread"`
	Bound    int    `json:"preemption_bound"`
	Choices  []int  `json:"choices,omitempty"`
	Kind     string `json:"kind"` // schedule | sequential-invariant | race
}

// c08expected computes, serially, the payload of every call (thread t, call i)
// and the set of acceptable payloads (any serial order).
func c08expected(sc *c08scenario, th, cp int) (expected map[string]int, problem string) {
	expected = map[string]int{}
	c08prepare()
	w := sc.build(th, cp)
	before := w.snapshot()
	for t := range w.calls {
		for _, call := range w.calls[t] {
			n0 := len(w.rec.events)
			if pan := catch(call); pan != "" {
				return nil, "serial run panicked: " + firstLine(pan)
			}
			per := 1
			if w.writes > 0 {
				per = w.writes
			}
			if len(w.rec.events) != n0+per {
				return nil, fmt.Sprintf("serial run: a call produced %d writes", len(w.rec.events)-n0)
			}
			for _, e := range w.rec.events[n0:] {
				expected[e]++
			}
		}
	}
	if after := w.snapshot(); after != before {
		return expected, fmt.Sprintf("shared input mutated by sequential logging: %q became %q", before, after)
	}
	// reverse order must give the same multiset (history independence is C09's business; here it guards the oracle)
	c08prepare()
	w2 := sc.build(th, cp)
	exp2 := map[string]int{}
	for t := len(w2.calls) - 1; t >= 0; t-- {
		for i := len(w2.calls[t]) - 1; i >= 0; i-- {
			n0 := len(w2.rec.events)
			catch(w2.calls[t][i])
			per := 1
			if w2.writes > 0 {
				per = w2.writes
			}
			if len(w2.rec.events) == n0+per {
				for _, e := range w2.rec.events[n0:] {
					exp2[e]++
				}
			}
		}
	}
	if fmt.Sprint(sortedCounts(expected)) != fmt.Sprint(sortedCounts(exp2)) {
		return expected, "serial orders disagree on the payloads (the reference multiset is not well defined)"
	}
	return expected, ""
}

func sortedCounts(m map[string]int) []string {
	var r []string
	for k, v := range m {
		r = append(r, fmt.Sprintf("%d x %s", v, k))
	}
	sort.Strings(r)
	return r
}

// c08runSchedule runs one interleaving.
func c08runSchedule(sc *c08scenario, th, cp int, prefix []int) (*sched.Execution, *c08world, string) {
	c08prepare()
	w := sc.build(th, cp)
	before := w.snapshot()
	bodies := make([]func(), len(w.calls))
	for t := range w.calls {
		t := t
		bodies[t] = func() {
			for _, call := range w.calls[t] {
				call()
			}
		}
	}
	x := sched.Execute(prefix, 200000, bodies)
	after := w.snapshot()
	mut := ""
	if after != before {
		mut = fmt.Sprintf("%q became %q", before, after)
	}
	return x, w, mut
}

func c08judge(x *sched.Execution, w *c08world, mut string, expected map[string]int) (clause, detail string) {
	for t, p := range x.Panics {
		if p != "" {
			return "no-panic", fmt.Sprintf("thread %d panicked: %s", t, firstLine(p))
		}
	}
	if x.Deadlock {
		return "no-deadlock", "no thread could run"
	}
	got := map[string]int{}
	for _, p := range w.rec.events {
		got[p]++
	}
	for p := range got {
		if expected[p] == 0 {
			return "payload-is-one-call's-record", fmt.Sprintf("a destination observed a payload that is not the record of any call: %.300q", p)
		}
	}
	for p, n := range expected {
		if got[p] != n {
			return "multiset-of-records", fmt.Sprintf("record %.160q delivered %d time(s), expected %d", p, got[p], n)
		}
	}
	if mut != "" {
		return "shared-input-unchanged", "a shared attribute value was modified by logging: " + mut
	}
	return "", ""
}

func c08schedViolation(cas c08case, sc *c08scenario, x *sched.Execution, clause, detail string) *Violation {
	cc := cas
	cc.Choices = x.Choices()
	var pre []string
	for i, p := range x.Points {
		if p.Chosen != 0 {
			pre = append(pre, fmt.Sprintf("#%d(%s,T%d)->alt%d", i, p.Kind, p.TID, p.Chosen))
		}
	}
	sig := fmt.Sprintf("C08|%s|%s|threads=%dx%d|deviations=%s", clause, sc.name, cas.Threads, cas.Calls, strings.Join(pre, ","))
	return mkViolation(sig, clause, detail+fmt.Sprintf(" [scenario %s, %d threads x %d calls, %d scheduling points, non-default choices: %v]", sc.name, cas.Threads, cas.Calls, len(x.Points), pre), cc)
}

func init() {
	register(&CheckDef{ID: "C08", Run: c08run, Replay: func(raw json.RawMessage) *Violation {
		var cas c08case
		if json.Unmarshal(raw, &cas) != nil {
			return nil
		}
		scs := c08scenarios()
		if cas.Scenario >= len(scs) {
			return nil
		}
		sc := &scs[cas.Scenario]
		switch cas.Kind {
		case "sequential-invariant":
			_, problem := c08expected(sc, cas.Threads, cas.Calls)
			if problem != "" {
				return mkViolation("C08|sequential-invariant|"+sc.name, "shared-input-unchanged", problem, cas)
			}
			return nil
		case "race":
			out, raced := c08raceChild(cas.Scenario, cas.Threads, cas.Calls)
			if raced {
				return mkViolation("C08|data-race|"+sc.name, "data-race", out, cas)
			}
			return nil
		}
		expected, _ := c08expected(sc, cas.Threads, cas.Calls)
		x, w, mut := c08runSchedule(sc, cas.Threads, cas.Calls, cas.Choices)
		x2, w2, _ := c08runSchedule(sc, cas.Threads, cas.Calls, cas.Choices)
		if fmt.Sprint(w.rec.events) != fmt.Sprint(w2.rec.events) || fmt.Sprint(x.Choices()) != fmt.Sprint(x2.Choices()) {
			return nil // a schedule that does not replay identically is never reported
		}
		cl, d := c08judge(x, w, mut, expected)
		if cl == "" {
			return nil
		}
		return c08schedViolation(cas, sc, x, cl, d)
	}})
	subs["c08race"] = c08raceMain
}

func c08run(c *Ctx) {
	c.Flag("exhaustive", true)
	scs := c08scenarios()
	pass := os.Getenv("VERIF_PASS")
	shapes := [][2]int{{2, 1}, {2, 2}, {3, 1}}
	bound := 2
	if c.Thorough() {
		bound = 3
	}
	dense := strings.Contains(os.Getenv("VERIF_BIN"), "dense")
	if dense {
		bound = 1
		if !c.Thorough() {
			shapes = [][2]int{{2, 1}}
		}
	}
	c.Info("pass", pass)
	// units of work: (scenario, shape); the DFS of one unit is sharded by level-1 subtrees
	unit := 0
	maxPoints := 0
	for si := range scs {
		sc := &scs[si]
		for _, sh := range shapes {
			unit++
			th, cp := sh[0], sh[1]
			if !c.Thorough() && !dense && th*cp > 2 && (si+th)%2 == 0 {
				continue // quick: the larger shapes on every other scenario (all of them in thorough)
			}
			b := bound
			if th*cp >= 4 && b > 2 && !dense {
				b = 2 // 2x2 at bound 3 is beyond the budget; reported
			}
			if dense {
				c08prepare()
				if probe := sc.build(th, cp); probe.noDense {
					continue
				}
			}
			expected, problem := c08expected(sc, th, cp)
			if c.Shard == 0 {
				c.Count("evaluations", 1)
				if problem != "" && !dense {
					c.Violate(mkViolation("C08|sequential-invariant|"+sc.name, "shared-input-unchanged", problem, c08case{Scenario: si, Threads: th, Calls: cp, Kind: "sequential-invariant"}))
				}
			}
			if expected == nil {
				continue
			}
			cas := c08case{Scenario: si, Threads: th, Calls: cp, Bound: b, Kind: "schedule"}
			ex := &sched.Explorer{Bound: b, MaxSteps: 200000, Shard: c.Shard, NShards: c.NShards, MaxExec: 3000000, Offset: unit * 3}
			var curW *c08world
			var curMut string
			mkBodies := func() []func() {
				c08prepare()
				w := sc.build(th, cp)
				curW = w
				before := w.snapshot()
				bodies := make([]func(), len(w.calls))
				for t := range w.calls {
					t := t
					bodies[t] = func() {
						for _, call := range w.calls[t] {
							call()
						}
						if t == 0 {
							_ = before
						}
					}
				}
				curMut = before
				return bodies
			}
			stop := false
			ex.Explore(mkBodies, func(x *sched.Execution) bool {
				c.Count("evaluations", 1)
				c.Count("transitions", int64(len(x.Points)))
				if len(x.Points) > maxPoints {
					maxPoints = len(x.Points)
				}
				mut := ""
				if after := curW.snapshot(); after != curMut {
					mut = fmt.Sprintf("%q became %q", curMut, after)
				}
				if x.Diverged != "" {
					c.Note("replay divergence (internal, not reported as violation): " + x.Diverged)
					c.Flag("exhaustive", false)
					return true
				}
				if cl, d := c08judge(x, curW, mut, expected); cl != "" {
					c.Violate(c08schedViolation(cas, sc, x, cl, d))
					if c.stop {
						stop = true
						return false
					}
				} else {
					c.Count("distinct_nontrivial", 1)
					c.Outcome(strings.Join(curW.rec.events, "\x00"))
				}
				return !c.Expired()
			})
			if !ex.Exhaustive {
				c.Flag("exhaustive", false)
				c.Note(fmt.Sprintf("%s %dx%d: execution cap reached", sc.name, th, cp))
			}
			c.Count("states", int64(ex.Executions))
			c.Count(fmt.Sprintf("executions_%s_%dx%d", strings.Fields(sc.name)[0], th, cp), int64(ex.Executions))
			if c.Shard == 0 {
				c.Sample(map[string]any{"scenario": sc.name, "threads": th, "calls_per_thread": cp, "preemption_bound": b, "dense_points": dense})
			}
			if stop || c.Expired() {
				break
			}
		}
	}
	c.Max("max_scheduling_points_in_one_execution", int64(maxPoints))
	c.Max("preemption_bound", int64(bound))
	// ---- complementary free-running race pass (detection only), one scenario per worker
	if !dense && os.Getenv("VERIF_RACE_BIN") != "" {
		for si := range scs {
			if !c.Mine(si) {
				continue
			}
			for _, g := range []int{2, 8, 64} {
				out, raced := c08raceChild(si, g, 20)
				c.Count("race_pass_runs", 1)
				if out == c08raceHung {
					c.Note("race pass: " + scs[si].name + ": " + c08raceHung)
					break
				}
				if raced {
					c.Violate(mkViolation("C08|data-race|"+scs[si].name, "data-race", out, c08case{Scenario: si, Threads: g, Calls: 20, Kind: "race"}))
					break
				}
			}
		}
		c.Note("race pass: free-running -race build of the same scenario bodies with 2/8/64 goroutines; detection only (silence proves nothing)")
	}
	c.Assume("sequentially consistent interleavings at the hooked points; Go memory-model reorderings are outside the exploration")
	c.Assume("2 threads x 2 calls is explored with at most 2 preemptions")
}

// ---- free-running race pass

const c08raceHung = "race pass child did not finish within 45 s (no verdict from this run)"

func c08raceChild(scenario, goroutines, calls int) (string, bool) {
	bin := os.Getenv("VERIF_RACE_BIN")
	if bin == "" {
		return "", false
	}
	cmd := exec.Command(bin, "-sub", "c08race", fmt.Sprint(scenario), fmt.Sprint(goroutines), fmt.Sprint(calls))
	cmd.Env = append(os.Environ(), "GORACE=halt_on_error=1 exitcode=66", "GOMAXPROCS=8")
	var buf bytes.Buffer
	cmd.Stdout, cmd.Stderr = &buf, &buf
	if e := cmd.Start(); e != nil {
		return e.Error(), false
	}
	done := make(chan error, 1)
	go func() { done <- cmd.Wait() }()
	var err error
	select {
	case err = <-done:
	case <-time.After(45 * time.Second):
		_ = cmd.Process.Kill()
		<-done
		return c08raceHung, false
	}
	out := buf.Bytes()
	if err != nil && strings.Contains(string(out), "DATA RACE") {
		s := string(out)
		if i := strings.Index(s, "WARNING: DATA RACE"); i >= 0 {
			s = s[i:]
		}
		if len(s) > 1400 {
			s = s[:1400]
		}
		return s, true
	}
	return string(out), false
}

func c08raceMain(args []string) {
	var si, g, n int
	fmt.Sscan(args[0], &si)
	fmt.Sscan(args[1], &g)
	fmt.Sscan(args[2], &n)
	snap0 = slog.VerifSnapshot()
	scs := c08scenarios()
	c08prepare()
	w := scs[si].build(g, n)
	var wg sync.WaitGroup
	start := make(chan struct{})
	for t := range w.calls {
		t := t
		wg.Add(1)
		go func() {
			defer wg.Done()
			<-start
			for _, call := range w.calls[t] {
				call()
			}
		}()
	}
	close(start)
	wg.Wait()
	fmt.Printf("done %d records\n", len(w.rec.events))
}
