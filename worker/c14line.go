package main

// A call site whose file name (given by a //line directive) contains a quote and a backslash:
// the caller field must still name it (C14), in every format.

//line /verif/worker/we"ird\path.go:100
func c14lineSite(e *c14env) (s c14site) { e.l.Info(mark(&s), "k", 1); return }
