package main

import "github.com/hedzr/logg/slog"

// A call site whose file name (given by a //line directive) contains a quote and a backslash:
// the caller field must still name it (C14), in every format.

//line /verif/worker/we"ird\path.go:100
func c14lineSite(e *c14env) (s c14site) { e.l.Info(mark(&s), "k", 1); return }

// a tiny function of this (renamed) file that the compiler inlines into its callers in c14.go
func c14otherFileInl(l slog.Logger) { l.Warn("m") }
