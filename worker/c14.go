package main

// C14 - caller attribution points at the user's call site for every entry
// point. Shape I over a table of one-line call sites: each case captures
// runtime.Caller(0) on the very line that issues the log call.

import (
	"context"
	"encoding/json"
	"fmt"
	"log"
	logslog "log/slog"
	"runtime"
	"strconv"
	"strings"

	"github.com/hedzr/logg/slog"

	"verif/oracle/jsonx"
	"verif/oracle/logfmt"
)

type c14site struct {
	pc   uintptr
	file string
	line int
}

func here(pc uintptr, f string, ln int, _ bool) c14site { return c14site{pc, f, ln} }

type c14env struct {
	l    slog.Logger     // the logger under test (already carrying skip n when n > 0)
	sl   *logslog.Logger // log/slog logger on top of the adapter
	std  *log.Logger     // std log bridge
	ctx  context.Context
	skip int
}

type c14entry struct {
	name string
	kind string // native | package | adapter | bridge
	call func(e *c14env) c14site
}

// Every case is ONE line: the capture and the call share the source line.
func c14entries() []c14entry {
	return []c14entry{
		{"Info", "native", func(e *c14env) c14site { s := here(runtime.Caller(0)); e.l.Info("m", "k", 1); return s }},
		{"Error", "native", func(e *c14env) c14site { s := here(runtime.Caller(0)); e.l.Error("m", "k", 1); return s }},
		{"Warn", "native", func(e *c14env) c14site { s := here(runtime.Caller(0)); e.l.Warn("m", "k", 1); return s }},
		{"Debug", "native", func(e *c14env) c14site { s := here(runtime.Caller(0)); e.l.Debug("m", "k", 1); return s }},
		{"Trace", "native", func(e *c14env) c14site { s := here(runtime.Caller(0)); e.l.Trace("m", "k", 1); return s }},
		{"Panic", "native", func(e *c14env) c14site { s := here(runtime.Caller(0)); e.l.Panic("m", "k", 1); return s }},
		{"Fatal", "native", func(e *c14env) c14site { s := here(runtime.Caller(0)); e.l.Fatal("m", "k", 1); return s }},
		{"Print", "native", func(e *c14env) c14site { s := here(runtime.Caller(0)); e.l.Print("m", "k", 1); return s }},
		{"Println", "native", func(e *c14env) c14site { s := here(runtime.Caller(0)); e.l.Println("m", "k", 1); return s }},
		{"OK", "native", func(e *c14env) c14site { s := here(runtime.Caller(0)); e.l.OK("m", "k", 1); return s }},
		{"Success", "native", func(e *c14env) c14site { s := here(runtime.Caller(0)); e.l.Success("m", "k", 1); return s }},
		{"Fail", "native", func(e *c14env) c14site { s := here(runtime.Caller(0)); e.l.Fail("m", "k", 1); return s }},
		{"InfoContext", "native", func(e *c14env) c14site { s := here(runtime.Caller(0)); e.l.InfoContext(e.ctx, "m", "k", 1); return s }},
		{"ErrorContext", "native", func(e *c14env) c14site { s := here(runtime.Caller(0)); e.l.ErrorContext(e.ctx, "m", "k", 1); return s }},
		{"WarnContext", "native", func(e *c14env) c14site { s := here(runtime.Caller(0)); e.l.WarnContext(e.ctx, "m", "k", 1); return s }},
		{"DebugContext", "native", func(e *c14env) c14site { s := here(runtime.Caller(0)); e.l.DebugContext(e.ctx, "m", "k", 1); return s }},
		{"TraceContext", "native", func(e *c14env) c14site { s := here(runtime.Caller(0)); e.l.TraceContext(e.ctx, "m", "k", 1); return s }},
		{"PanicContext", "native", func(e *c14env) c14site { s := here(runtime.Caller(0)); e.l.PanicContext(e.ctx, "m", "k", 1); return s }},
		{"FatalContext", "native", func(e *c14env) c14site { s := here(runtime.Caller(0)); e.l.FatalContext(e.ctx, "m", "k", 1); return s }},
		{"PrintContext", "native", func(e *c14env) c14site { s := here(runtime.Caller(0)); e.l.PrintContext(e.ctx, "m", "k", 1); return s }},
		{"PrintlnContext", "native", func(e *c14env) c14site { s := here(runtime.Caller(0)); e.l.PrintlnContext(e.ctx, "m", "k", 1); return s }},
		{"OKContext", "native", func(e *c14env) c14site { s := here(runtime.Caller(0)); e.l.OKContext(e.ctx, "m", "k", 1); return s }},
		{"SuccessContext", "native", func(e *c14env) c14site { s := here(runtime.Caller(0)); e.l.SuccessContext(e.ctx, "m", "k", 1); return s }},
		{"FailContext", "native", func(e *c14env) c14site { s := here(runtime.Caller(0)); e.l.FailContext(e.ctx, "m", "k", 1); return s }},
		{"LogAttrs", "native", func(e *c14env) c14site { s := here(runtime.Caller(0)); e.l.LogAttrs(e.ctx, slog.InfoLevel, "m", "k", 1); return s }},
		{"Logit", "native", func(e *c14env) c14site { s := here(runtime.Caller(0)); e.l.Logit(e.ctx, slog.WarnLevel, "m", "k", 1); return s }},
		{"Log", "native", func(e *c14env) c14site { s := here(runtime.Caller(0)); e.l.Log(e.ctx, logslog.LevelInfo, "m", "k", 1); return s }},
		{"Infof", "native", func(e *c14env) c14site { s := here(runtime.Caller(0)); _ = e.l.Infof("m %d", 1); return s }},
		{"Warnf", "native", func(e *c14env) c14site { s := here(runtime.Caller(0)); _ = e.l.Warnf("m %d", 1); return s }},
		{"Errorf", "native", func(e *c14env) c14site { s := here(runtime.Caller(0)); _ = e.l.Errorf("m %d", 1); return s }},
		{"interface-dispatched Info", "native", func(e *c14env) c14site { var p slog.Printer = e.l; s := here(runtime.Caller(0)); p.Info("m"); return s }},
		{"deferred Info", "native", func(e *c14env) (s c14site) { defer func() { s = here(runtime.Caller(0)); e.l.Info("m") }(); return }},
		{"slog.Info", "package", func(e *c14env) c14site { s := here(runtime.Caller(0)); slog.Info("m", "k", 1); return s }},
		{"slog.Error", "package", func(e *c14env) c14site { s := here(runtime.Caller(0)); slog.Error("m", "k", 1); return s }},
		{"slog.Warn", "package", func(e *c14env) c14site { s := here(runtime.Caller(0)); slog.Warn("m", "k", 1); return s }},
		{"slog.Debug", "package", func(e *c14env) c14site { s := here(runtime.Caller(0)); slog.Debug("m", "k", 1); return s }},
		{"slog.Trace", "package", func(e *c14env) c14site { s := here(runtime.Caller(0)); slog.Trace("m", "k", 1); return s }},
		{"slog.Panic", "package", func(e *c14env) c14site { s := here(runtime.Caller(0)); slog.Panic("m", "k", 1); return s }},
		{"slog.Fatal", "package", func(e *c14env) c14site { s := here(runtime.Caller(0)); slog.Fatal("m", "k", 1); return s }},
		{"slog.Print", "package", func(e *c14env) c14site { s := here(runtime.Caller(0)); slog.Print("m", "k", 1); return s }},
		{"slog.Println", "package", func(e *c14env) c14site { s := here(runtime.Caller(0)); slog.Println("m", "k", 1); return s }},
		{"slog.OK", "package", func(e *c14env) c14site { s := here(runtime.Caller(0)); slog.OK("m", "k", 1); return s }},
		{"slog.Success", "package", func(e *c14env) c14site { s := here(runtime.Caller(0)); slog.Success("m", "k", 1); return s }},
		{"slog.Fail", "package", func(e *c14env) c14site { s := here(runtime.Caller(0)); slog.Fail("m", "k", 1); return s }},
		{"slog.InfoContext", "package", func(e *c14env) c14site { s := here(runtime.Caller(0)); slog.InfoContext(e.ctx, "m", "k", 1); return s }},
		{"slog.ErrorContext", "package", func(e *c14env) c14site { s := here(runtime.Caller(0)); slog.ErrorContext(e.ctx, "m", "k", 1); return s }},
		{"slog.WarnContext", "package", func(e *c14env) c14site { s := here(runtime.Caller(0)); slog.WarnContext(e.ctx, "m", "k", 1); return s }},
		{"slog.DebugContext", "package", func(e *c14env) c14site { s := here(runtime.Caller(0)); slog.DebugContext(e.ctx, "m", "k", 1); return s }},
		{"slog.TraceContext", "package", func(e *c14env) c14site { s := here(runtime.Caller(0)); slog.TraceContext(e.ctx, "m", "k", 1); return s }},
		{"slog.PanicContext", "package", func(e *c14env) c14site { s := here(runtime.Caller(0)); slog.PanicContext(e.ctx, "m", "k", 1); return s }},
		{"slog.FatalContext", "package", func(e *c14env) c14site { s := here(runtime.Caller(0)); slog.FatalContext(e.ctx, "m", "k", 1); return s }},
		{"slog.PrintContext", "package", func(e *c14env) c14site { s := here(runtime.Caller(0)); slog.PrintContext(e.ctx, "m", "k", 1); return s }},
		{"slog.PrintlnContext", "package", func(e *c14env) c14site { s := here(runtime.Caller(0)); slog.PrintlnContext(e.ctx, "m", "k", 1); return s }},
		{"slog.OKContext", "package", func(e *c14env) c14site { s := here(runtime.Caller(0)); slog.OKContext(e.ctx, "m", "k", 1); return s }},
		{"slog.SuccessContext", "package", func(e *c14env) c14site { s := here(runtime.Caller(0)); slog.SuccessContext(e.ctx, "m", "k", 1); return s }},
		{"slog.FailContext", "package", func(e *c14env) c14site { s := here(runtime.Caller(0)); slog.FailContext(e.ctx, "m", "k", 1); return s }},
		{"log/slog Logger.Info", "adapter", func(e *c14env) c14site { s := here(runtime.Caller(0)); e.sl.Info("m", "k", 1); return s }},
		{"log/slog Logger.Warn", "adapter", func(e *c14env) c14site { s := here(runtime.Caller(0)); e.sl.Warn("m", "k", 1); return s }},
		{"log/slog Logger.ErrorContext", "adapter", func(e *c14env) c14site { s := here(runtime.Caller(0)); e.sl.ErrorContext(e.ctx, "m", "k", 1); return s }},
		{"log/slog Logger.Log", "adapter", func(e *c14env) c14site { s := here(runtime.Caller(0)); e.sl.Log(e.ctx, logslog.LevelInfo, "m", "k", 1); return s }},
		{"log/slog Logger.LogAttrs", "adapter", func(e *c14env) c14site { s := here(runtime.Caller(0)); e.sl.LogAttrs(e.ctx, logslog.LevelInfo, "m", logslog.Int("k", 1)); return s }},
		{"log/slog package Info (SetDefault)", "adapter", func(e *c14env) c14site { old := logslog.Default(); logslog.SetDefault(e.sl); defer logslog.SetDefault(old); s := here(runtime.Caller(0)); logslog.Info("m", "k", 1); return s }},
		{"log/slog Logger.With(...).Info (derived handler)", "adapter", func(e *c14env) c14site { d := e.sl.With("a", 1); s := here(runtime.Caller(0)); d.Info("m", "k", 1); return s }},
		{"log/slog Logger.WithGroup(g).Warn (derived handler)", "adapter", func(e *c14env) c14site { d := e.sl.WithGroup("g"); s := here(runtime.Caller(0)); d.Warn("m", "k", 1); return s }},
		{"std log Print", "bridge", func(e *c14env) c14site { s := here(runtime.Caller(0)); e.std.Print("m"); return s }},
		{"std log Printf", "bridge", func(e *c14env) c14site { s := here(runtime.Caller(0)); e.std.Printf("m %d", 1); return s }},
		{"std log Println", "bridge", func(e *c14env) c14site { s := here(runtime.Caller(0)); e.std.Println("m"); return s }},
		{"std log Output(1)", "bridge", func(e *c14env) c14site { s := here(runtime.Caller(0)); _ = e.std.Output(1, "m"); return s }},
	}
}

// wrapper chains for skip counts: wrapN calls the native Info/ErrorContext n levels below the call site

//go:noinline
func c14wrapA1(l slog.Logger) { l.Info("m", "k", 1) }

//go:noinline
func c14wrapA2(l slog.Logger) { c14wrapA1(l) }

//go:noinline
func c14wrapA3(l slog.Logger) { c14wrapA2(l) }

//go:noinline
func c14wrapA4(l slog.Logger) { c14wrapA3(l) }

// inlinable variants
func c14wrapB1(l slog.Logger) { l.ErrorContext(context.Background(), "m", "k", 1) }
func c14wrapB2(l slog.Logger) { c14wrapB1(l) }
func c14wrapB3(l slog.Logger) { c14wrapB2(l) }
func c14wrapB4(l slog.Logger) { c14wrapB3(l) }

// closure wrapper
var c14wrapC1 = func(l slog.Logger) { l.LogAttrs(context.Background(), slog.InfoLevel, "m", "k", 1) }

type c14wrapCase struct {
	name string
	n    int
	call func(l slog.Logger) c14site
}

func c14wrappers() []c14wrapCase {
	return []c14wrapCase{
		{"noinline chain, Info", 1, func(l slog.Logger) c14site { s := here(runtime.Caller(0)); c14wrapA1(l); return s }},
		{"noinline chain, Info", 2, func(l slog.Logger) c14site { s := here(runtime.Caller(0)); c14wrapA2(l); return s }},
		{"noinline chain, Info", 3, func(l slog.Logger) c14site { s := here(runtime.Caller(0)); c14wrapA3(l); return s }},
		{"noinline chain, Info", 4, func(l slog.Logger) c14site { s := here(runtime.Caller(0)); c14wrapA4(l); return s }},
		{"inlinable chain, ErrorContext", 1, func(l slog.Logger) c14site { s := here(runtime.Caller(0)); c14wrapB1(l); return s }},
		{"inlinable chain, ErrorContext", 2, func(l slog.Logger) c14site { s := here(runtime.Caller(0)); c14wrapB2(l); return s }},
		{"inlinable chain, ErrorContext", 3, func(l slog.Logger) c14site { s := here(runtime.Caller(0)); c14wrapB3(l); return s }},
		{"inlinable chain, ErrorContext", 4, func(l slog.Logger) c14site { s := here(runtime.Caller(0)); c14wrapB4(l); return s }},
		{"closure wrapper, LogAttrs", 1, func(l slog.Logger) c14site { s := here(runtime.Caller(0)); c14wrapC1(l); return s }},
	}
}

type c14case struct {
	Entry   string `json:"entry"`
	Format  string `json:"format"`
	Logger  string `json:"logger"` // root | child | default
	Skip    int    `json:"skip"`
	SkipVia string `json:"skip_via"` // "" | WithSkip | SetSkip
}

func c14run1(cas c14case) *Violation {
	resetGlobals()
	slog.AddFlags(slog.Lcaller | slog.LnoInterrupt)
	rec := &recorder{}
	w := &plainW{"w", rec}
	var l slog.Logger
	switch cas.Logger {
	case "child":
		l = slog.New("parent").New("child")
	case "default":
		l = slog.Default()
	default:
		l = slog.New("root")
	}
	mk := func(clause, detail string) *Violation {
		sig := fmt.Sprintf("C14|%s|entry=%s|format=%s|logger=%s|skip=%d(%s)", clause, cas.Entry, cas.Format, cas.Logger, cas.Skip, cas.SkipVia)
		return mkViolation(sig, clause, detail, cas)
	}
	conf := func(x slog.Logger) {
		x.SetWriter(w).SetErrorWriter(w).SetLevel(slog.TraceLevel)
		slog.VerifRestoreModes(false, false)
		switch cas.Format {
		case "json":
			x.SetJSONMode(true)
		case "logfmt":
			x.SetColorMode(false)
		default:
			x.SetColorMode(true)
		}
	}
	conf(l)
	var site c14site
	var pan string
	if cas.Skip > 0 {
		var wc *c14wrapCase
		for _, x := range c14wrappers() {
			if x.name == cas.Entry && x.n == cas.Skip {
				x := x
				wc = &x
			}
		}
		if wc == nil {
			return nil
		}
		if cas.SkipVia == "SetSkip" {
			l.SetSkip(cas.Skip)
		} else {
			l = l.WithSkip(cas.Skip)
			conf(l)
		}
		pan = catch(func() { site = wc.call(l) })
	} else {
		var ent *c14entry
		es := c14entries()
		for i := range es {
			if es[i].name == cas.Entry {
				ent = &es[i]
			}
		}
		if ent == nil {
			return nil
		}
		if ent.kind == "package" && cas.Logger != "default" {
			return nil
		}
		env := &c14env{l: l, ctx: context.Background()}
		switch ent.kind {
		case "adapter":
			h := slog.NewSlogHandler(l, &slog.HandlerOptions{NoColor: cas.Format != "color", JSON: cas.Format == "json"})
			env.sl = logslog.New(h)
		case "bridge":
			env.std = slog.NewLogLogger(l, slog.InfoLevel)
		}
		pan = catch(func() { site = ent.call(env) })
	}
	if pan != "" {
		return mk("call-returns", "the call panicked: "+firstLine(pan))
	}
	if len(rec.events) != 1 {
		return mk("one-record", fmt.Sprintf("%d records written", len(rec.events)))
	}
	p := rec.events[0].Payload
	wantFile := slog.Safety(site.file)
	wantFn := runtime.FuncForPC(site.pc).Name()
	var gotFile, gotFn string
	var gotLine int
	switch cas.Format {
	case "json":
		obj, err := jsonx.DecodeLine([]byte(p))
		if err != nil {
			return mk("decodable", fmt.Sprintf("%v: %.200q", err, p))
		}
		cv, _ := obj.Get("caller")
		co, ok := cv.(*jsonx.Obj)
		if !ok {
			return mk("caller-present", fmt.Sprintf("no caller object in %.200q", p))
		}
		f, _ := co.Get("file")
		gotFile, _ = f.(string)
		fn, _ := co.Get("function")
		gotFn, _ = fn.(string)
		if ln, ok := co.Get("line"); ok {
			if num, ok := ln.(json.Number); ok {
				gotLine, _ = strconv.Atoi(num.String())
			}
		}
	case "logfmt":
		pairs, err := logfmt.ParseLine([]byte(p))
		if err != nil {
			return mk("decodable", fmt.Sprintf("%v: %.200q", err, p))
		}
		for _, pr := range pairs {
			switch pr.Key {
			case "caller.file":
				gotFile = pr.Val
			case "caller.line":
				gotLine, _ = strconv.Atoi(pr.Val)
			case "caller.function":
				gotFn = pr.Val
			}
		}
	default:
		text := strings.TrimRight(slog.StripEscapes(p), "\n")
		if i := strings.IndexByte(text, '\n'); i >= 0 {
			text = text[:i]
		}
		f := strings.Fields(text)
		if len(f) < 2 {
			return mk("decodable", fmt.Sprintf("unexpected colored record %.200q", text))
		}
		gotFn = f[len(f)-1]
		fl := f[len(f)-2]
		j := strings.LastIndexByte(fl, ':')
		if j < 0 {
			return mk("decodable", fmt.Sprintf("no file:line in %.200q", text))
		}
		gotFile = fl[:j]
		gotLine, _ = strconv.Atoi(fl[j+1:])
		wantFn = slog.VerifCheckedFuncName(wantFn)
	}
	if gotFile != wantFile || gotLine != site.line {
		return mk("file-and-line", fmt.Sprintf("record says %s:%d, the call statement is at %s:%d; payload %.250q", gotFile, gotLine, wantFile, site.line, p))
	}
	if gotFn != wantFn {
		return mk("function", fmt.Sprintf("record says function %q, the call statement is in %q", gotFn, wantFn))
	}
	c14last = fmt.Sprintf("%s:%d", gotFile, gotLine)
	return nil
}

var c14last string

func init() {
	register(&CheckDef{ID: "C14", Run: func(c *Ctx) {
		c.Flag("exhaustive", true)
		n := 0
		emit := func(cas c14case) {
			n++
			if !c.Mine(n) || c.Expired() {
				return
			}
			c.Count("evaluations", 1)
			if v := c14run1(cas); v != nil {
				c.Violate(v)
				return
			}
			c.Count("distinct_nontrivial", 1)
			c.Outcome(c14last + cas.Format + cas.Logger)
			if n%97 == 0 {
				c.Sample(cas)
			}
		}
		for _, f := range []string{"json", "logfmt", "color"} {
			for _, lg := range []string{"root", "child", "default"} {
				for _, e := range c14entries() {
					emit(c14case{Entry: e.name, Format: f, Logger: lg})
				}
				for _, wcase := range c14wrappers() {
					for _, via := range []string{"WithSkip", "SetSkip"} {
						emit(c14case{Entry: wcase.name, Format: f, Logger: lg, Skip: wcase.n, SkipVia: via})
					}
				}
			}
		}
		c.Info("entry_points", len(c14entries()))
		c.Info("wrapper_cases", len(c14wrappers()))
		c.Info("build_pass", fmt.Sprint(osGetenv("VERIF_PASS")))
	}, Replay: func(raw json.RawMessage) *Violation {
		var cas c14case
		if json.Unmarshal(raw, &cas) != nil {
			return nil
		}
		return c14run1(cas)
	}})
}
