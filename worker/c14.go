package main

// C14 - caller attribution points at the user's call site for every entry
// point. Shape I over a table of one-line call sites: each case captures
// runtime.Caller(0) on the very line that issues the log call.

import (
	"reflect"
	"context"
	"encoding/json"
	"fmt"
	"log"
	logslog "log/slog"
	"runtime"
	"strconv"
	"strings"

	"github.com/hedzr/logg/slog"
	errorsv3 "gopkg.in/hedzr/errors.v3"

	applog "verif/worker/c14pkg/log"

	"verif/oracle/jsonx"
	"verif/oracle/logfmt"
)

type c14site struct {
	pc   uintptr
	file string
	line int
	fn   string // the function the statement belongs to (inlining resolved by runtime.CallersFrames)
}

// here resolves the position of the statement that called mark* (two frames up from here).
func here(_ uintptr, _ string, _ int, _ bool) c14site {
	var pcs [1]uintptr
	if runtime.Callers(3, pcs[:]) < 1 {
		return c14site{}
	}
	fr, _ := runtime.CallersFrames(pcs[:]).Next()
	return c14site{pcs[0], fr.File, fr.Line, fr.Function}
}

// mark records the source position of the expression that calls it - it is written as an argument of the
// log call itself, so it is on the call's own line whatever gofmt does to the surrounding function - and
// returns the message.
func mark(s *c14site) string         { *s = here(runtime.Caller(1)); return "m" }
func mark42(s *c14site) any          { *s = here(runtime.Caller(1)); return 42 }
func markErr(s *c14site) any         { *s = here(runtime.Caller(1)); return c14err }
func markBlank(s *c14site) []any     { *s = here(runtime.Caller(1)); return nil }
func markV[T any](s *c14site, v T) T { *s = here(runtime.Caller(1)); return v }

var c14err = fmt.Errorf("an error value")

// small functions the compiler inlines (default build); the log call is their last statement
// (each on ONE line: the position of the statement is the position of the function)
func c14inlLast(l slog.Logger)  { l.Info("m") }
func c14inlInner(l slog.Logger) { l.Warn("m") }
func c14inlOuter(l slog.Logger) { c14inlInner(l) }

// c14siteOf returns the position of a one-line function.
func c14siteOf(f any) c14site {
	pc := reflect.ValueOf(f).Pointer()
	fn := runtime.FuncForPC(pc)
	file, line := fn.FileLine(pc)
	return c14site{pc, file, line, fn.Name()}
}

// an errors.v3 error with stack info, created here - far from every log call
var c14v3err = errorsv3.New("v3 error with a stack")

// c14conf configures a derived logger like the logger under test.
func c14conf(x slog.Logger, e *c14env) {
	if e.conf != nil {
		e.conf(x)
	}
}

func c14errOrText(stack bool) any {
	if stack {
		return c14v3err
	}
	return "no error this time"
}

type c14env struct {
	reset func() // forgets the records written so far
	conf  func(x slog.Logger)
	l    slog.Logger     // the logger under test (already carrying skip n when n > 0)
	sl   *logslog.Logger // log/slog logger on top of the adapter
	std  *log.Logger     // std log bridge
	ctx  context.Context
	skip int
}

type c14entry struct {
	name string
	kind string // native | package | adapter | bridge
	call func(e *c14env) c14site
}

// Every case is ONE line: the capture and the call share the source line.
func c14entries() []c14entry {
	ents := c14entriesDefault()
	if workerVerboseBuild {
		// the build with -tags verbose: the Verbose family emits records (at Trace level) and is an entry point like the others.
		// Only these are evaluated in that build: the library traces its own work through Verbose there, so the other entry
		// points come with extra records that are no business of this property.
		ents = append(ents[:0:0],
			c14entry{"Verbose (build with -tags verbose)", "native", func(e *c14env) (s c14site) { e.l.Verbose(mark(&s), "k", 1); return }},
			c14entry{"VerboseContext (build with -tags verbose)", "native", func(e *c14env) (s c14site) { e.l.VerboseContext(e.ctx, mark(&s), "k", 1); return }},
			c14entry{"slog.Verbose (build with -tags verbose)", "package", func(e *c14env) (s c14site) { slog.Verbose(mark(&s), "k", 1); return }},
			c14entry{"slog.VerboseContext (build with -tags verbose)", "package", func(e *c14env) (s c14site) { slog.VerboseContext(e.ctx, mark(&s), "k", 1); return }})
	}
	return ents
}

func c14entriesDefault() []c14entry {
	return []c14entry{
		{"Info", "native", func(e *c14env) (s c14site) { e.l.Info(mark(&s), "k", 1); return }},
		{"Error with a stack-carrying error attribute (created elsewhere)", "native", func(e *c14env) (s c14site) { e.l.Error(mark(&s), "err", c14v3err, "k", 1); return }},
		{"Info from a file whose name needs escaping (//line directive)", "native", c14lineSite},
		{"Info as the last statement of a small function that the compiler inlines into its caller", "native", func(e *c14env) (s c14site) { c14inlLast(e.l); return c14siteOf(c14inlLast) }},
		{"Warn as the last statement of an inlined function, two levels", "native", func(e *c14env) (s c14site) { c14inlOuter(e.l); return c14siteOf(c14inlInner) }},
		{"second of two records from ONE call site, the first carried a stack-carrying error", "native", func(e *c14env) (s c14site) {
			for i := 0; i < 2; i++ { e.reset(); e.l.Error(mark(&s), "err", c14errOrText(i == 0), "k", i) }
			return
		}},
		{"Error", "native", func(e *c14env) (s c14site) { e.l.Error(mark(&s), "k", 1); return }},
		{"Warn", "native", func(e *c14env) (s c14site) { e.l.Warn(mark(&s), "k", 1); return }},
		{"Debug", "native", func(e *c14env) (s c14site) { e.l.Debug(mark(&s), "k", 1); return }},
		{"Trace", "native", func(e *c14env) (s c14site) { e.l.Trace(mark(&s), "k", 1); return }},
		{"Panic", "native", func(e *c14env) (s c14site) { e.l.Panic(mark(&s), "k", 1); return }},
		{"Fatal", "native", func(e *c14env) (s c14site) { e.l.Fatal(mark(&s), "k", 1); return }},
		{"Print", "native", func(e *c14env) (s c14site) { e.l.Print(mark(&s), "k", 1); return }},
		{"Println", "native", func(e *c14env) (s c14site) { e.l.Println(mark(&s), "k", 1); return }},
		{"OK", "native", func(e *c14env) (s c14site) { e.l.OK(mark(&s), "k", 1); return }},
		{"Success", "native", func(e *c14env) (s c14site) { e.l.Success(mark(&s), "k", 1); return }},
		{"Fail", "native", func(e *c14env) (s c14site) { e.l.Fail(mark(&s), "k", 1); return }},
		{"InfoContext", "native", func(e *c14env) (s c14site) {
			e.l.InfoContext(e.ctx, mark(&s), "k", 1)
			return
		}},
		{"ErrorContext", "native", func(e *c14env) (s c14site) {
			e.l.ErrorContext(e.ctx, mark(&s), "k", 1)
			return
		}},
		{"WarnContext", "native", func(e *c14env) (s c14site) {
			e.l.WarnContext(e.ctx, mark(&s), "k", 1)
			return
		}},
		{"DebugContext", "native", func(e *c14env) (s c14site) {
			e.l.DebugContext(e.ctx, mark(&s), "k", 1)
			return
		}},
		{"TraceContext", "native", func(e *c14env) (s c14site) {
			e.l.TraceContext(e.ctx, mark(&s), "k", 1)
			return
		}},
		{"PanicContext", "native", func(e *c14env) (s c14site) {
			e.l.PanicContext(e.ctx, mark(&s), "k", 1)
			return
		}},
		{"FatalContext", "native", func(e *c14env) (s c14site) {
			e.l.FatalContext(e.ctx, mark(&s), "k", 1)
			return
		}},
		{"PrintContext", "native", func(e *c14env) (s c14site) {
			e.l.PrintContext(e.ctx, mark(&s), "k", 1)
			return
		}},
		{"PrintlnContext", "native", func(e *c14env) (s c14site) {
			e.l.PrintlnContext(e.ctx, mark(&s), "k", 1)
			return
		}},
		{"OKContext", "native", func(e *c14env) (s c14site) { e.l.OKContext(e.ctx, mark(&s), "k", 1); return }},
		{"SuccessContext", "native", func(e *c14env) (s c14site) {
			e.l.SuccessContext(e.ctx, mark(&s), "k", 1)
			return
		}},
		{"FailContext", "native", func(e *c14env) (s c14site) {
			e.l.FailContext(e.ctx, mark(&s), "k", 1)
			return
		}},
		{"LogAttrs", "native", func(e *c14env) (s c14site) {
			e.l.LogAttrs(e.ctx, slog.InfoLevel, mark(&s), "k", 1)
			return
		}},
		{"Logit", "native", func(e *c14env) (s c14site) {
			e.l.Logit(e.ctx, slog.WarnLevel, mark(&s), "k", 1)
			return
		}},
		{"Log", "native", func(e *c14env) (s c14site) {
			e.l.Log(e.ctx, logslog.LevelInfo, mark(&s), "k", 1)
			return
		}},
		{"Infof", "native", func(e *c14env) (s c14site) { _ = e.l.Infof(mark(&s)+" %d", 1); return }},
		{"Warnf", "native", func(e *c14env) (s c14site) { _ = e.l.Warnf(mark(&s)+" %d", 1); return }},
		{"Errorf", "native", func(e *c14env) (s c14site) { _ = e.l.Errorf(mark(&s)+" %d", 1); return }},
		{"Println(non-string first argument)", "native", func(e *c14env) (s c14site) { e.l.Println(mark42(&s), "k", 1); return }},
		{"Println()", "native", func(e *c14env) (s c14site) { e.l.Println(markBlank(&s)...); return }},
		{"Info after SetSkip(2); SetSkip(0)", "native", func(e *c14env) (s c14site) {
			e.l.SetSkip(2)
			e.l.SetSkip(0)
			e.l.Info(mark(&s), "k", 1)
			return
		}},
		{"Info on WithSkip(0) child", "native", func(e *c14env) (s c14site) {
			ch := e.l.WithSkip(0)
			c14conf(ch, e)
			ch.Info(mark(&s), "k", 1)
			return
		}},
		{"interface-dispatched Info", "native", func(e *c14env) (s c14site) {
			var p slog.Printer = e.l
			p.Info(mark(&s))
			return
		}},
		{"deferred Info", "native", func(e *c14env) (s c14site) { defer func() { e.l.Info(mark(&s)) }(); return }},
		{"slog.Info", "package", func(e *c14env) (s c14site) { slog.Info(mark(&s), "k", 1); return }},
		{"slog.Error", "package", func(e *c14env) (s c14site) { slog.Error(mark(&s), "k", 1); return }},
		{"slog.Warn", "package", func(e *c14env) (s c14site) { slog.Warn(mark(&s), "k", 1); return }},
		{"slog.Debug", "package", func(e *c14env) (s c14site) { slog.Debug(mark(&s), "k", 1); return }},
		{"slog.Trace", "package", func(e *c14env) (s c14site) { slog.Trace(mark(&s), "k", 1); return }},
		{"slog.Panic", "package", func(e *c14env) (s c14site) { slog.Panic(mark(&s), "k", 1); return }},
		{"slog.Fatal", "package", func(e *c14env) (s c14site) { slog.Fatal(mark(&s), "k", 1); return }},
		{"slog.Print", "package", func(e *c14env) (s c14site) { slog.Print(mark(&s), "k", 1); return }},
		{"slog.Println(non-string first argument)", "package", func(e *c14env) (s c14site) { slog.Println(mark42(&s), "k", 1); return }},
		{"slog.Println(error first argument)", "package", func(e *c14env) (s c14site) { slog.Println(markErr(&s), "k", 1); return }},
		{"slog.Println()", "package", func(e *c14env) (s c14site) { slog.Println(markBlank(&s)...); return }},
		{"slog.Println", "package", func(e *c14env) (s c14site) { slog.Println(mark(&s), "k", 1); return }},
		{"slog.OK", "package", func(e *c14env) (s c14site) { slog.OK(mark(&s), "k", 1); return }},
		{"slog.Success", "package", func(e *c14env) (s c14site) { slog.Success(mark(&s), "k", 1); return }},
		{"slog.Fail", "package", func(e *c14env) (s c14site) { slog.Fail(mark(&s), "k", 1); return }},
		{"slog.InfoContext", "package", func(e *c14env) (s c14site) {
			slog.InfoContext(e.ctx, mark(&s), "k", 1)
			return
		}},
		{"slog.ErrorContext", "package", func(e *c14env) (s c14site) {
			slog.ErrorContext(e.ctx, mark(&s), "k", 1)
			return
		}},
		{"slog.WarnContext", "package", func(e *c14env) (s c14site) {
			slog.WarnContext(e.ctx, mark(&s), "k", 1)
			return
		}},
		{"slog.DebugContext", "package", func(e *c14env) (s c14site) {
			slog.DebugContext(e.ctx, mark(&s), "k", 1)
			return
		}},
		{"slog.TraceContext", "package", func(e *c14env) (s c14site) {
			slog.TraceContext(e.ctx, mark(&s), "k", 1)
			return
		}},
		{"slog.PanicContext", "package", func(e *c14env) (s c14site) {
			slog.PanicContext(e.ctx, mark(&s), "k", 1)
			return
		}},
		{"slog.FatalContext", "package", func(e *c14env) (s c14site) {
			slog.FatalContext(e.ctx, mark(&s), "k", 1)
			return
		}},
		{"slog.PrintContext", "package", func(e *c14env) (s c14site) {
			slog.PrintContext(e.ctx, mark(&s), "k", 1)
			return
		}},
		{"slog.PrintlnContext", "package", func(e *c14env) (s c14site) {
			slog.PrintlnContext(e.ctx, mark(&s), "k", 1)
			return
		}},
		{"slog.OKContext", "package", func(e *c14env) (s c14site) {
			slog.OKContext(e.ctx, mark(&s), "k", 1)
			return
		}},
		{"slog.SuccessContext", "package", func(e *c14env) (s c14site) {
			slog.SuccessContext(e.ctx, mark(&s), "k", 1)
			return
		}},
		{"slog.FailContext", "package", func(e *c14env) (s c14site) {
			slog.FailContext(e.ctx, mark(&s), "k", 1)
			return
		}},
		{"log/slog Logger.Info", "adapter", func(e *c14env) (s c14site) { e.sl.Info(mark(&s), "k", 1); return }},
		{"log/slog Logger.Warn", "adapter", func(e *c14env) (s c14site) { e.sl.Warn(mark(&s), "k", 1); return }},
		{"log/slog Logger.ErrorContext", "adapter", func(e *c14env) (s c14site) {
			e.sl.ErrorContext(e.ctx, mark(&s), "k", 1)
			return
		}},
		{"log/slog Logger.Log", "adapter", func(e *c14env) (s c14site) {
			e.sl.Log(e.ctx, logslog.LevelInfo, mark(&s), "k", 1)
			return
		}},
		{"log/slog Logger.LogAttrs", "adapter", func(e *c14env) (s c14site) {
			e.sl.LogAttrs(e.ctx, logslog.LevelInfo, mark(&s), logslog.Int("k", 1))
			return
		}},
		{"log/slog package Info (SetDefault)", "adapter", func(e *c14env) (s c14site) {
			old := logslog.Default()
			logslog.SetDefault(e.sl)
			defer logslog.SetDefault(old)
			logslog.Info(mark(&s), "k", 1)
			return
		}},
		{"log/slog Logger.With(...).Info (derived handler)", "adapter", func(e *c14env) (s c14site) {
			d := e.sl.With("a", 1)
			d.Info(mark(&s), "k", 1)
			return
		}},
		{"log/slog Logger.WithGroup(g).Warn (derived handler)", "adapter", func(e *c14env) (s c14site) {
			d := e.sl.WithGroup("g")
			d.Warn(mark(&s), "k", 1)
			return
		}},
		{"std log Print", "bridge", func(e *c14env) (s c14site) { e.std.Print(mark(&s)); return }},
		{"std log Printf", "bridge", func(e *c14env) (s c14site) { e.std.Printf(mark(&s)+" %d", 1); return }},
		{"std log Println", "bridge", func(e *c14env) (s c14site) { e.std.Println(mark(&s)); return }},
		{"std log Output(1)", "bridge", func(e *c14env) (s c14site) { _ = e.std.Output(1, mark(&s)); return }},
		{"Warn from a tiny function of ANOTHER source file, inlined into a function that has just logged a record itself", "native", func(e *c14env) (s c14site) { e.l.Info("m"); e.reset(); c14otherFileInl(e.l); return c14siteOf(c14otherFileInl) }},
		// user code in a package that is itself named log
		{"std log Print from a user package named log", "bridge", func(e *c14env) c14site { return c14from(applog.ViaBridgePrint(e.std)) }},
		{"std log Printf from a user package named log", "bridge", func(e *c14env) c14site { return c14from(applog.ViaBridgePrintf(e.std)) }},
		{"std log Output(1) from a user package named log", "bridge", func(e *c14env) c14site { return c14from(applog.ViaBridgeOutput(e.std)) }},
		{"Info from a user package named log", "native", func(e *c14env) c14site { return c14from(applog.ViaNativeInfo(e.l)) }},
		{"log/slog Logger.Warn from a user package named log", "adapter", func(e *c14env) c14site { return c14from(applog.ViaAdapterWarn(e.sl)) }},
		{"slog.Error from a user package named log", "package", func(e *c14env) c14site { return c14from(applog.ViaPackageLevelError()) }},
		// attributes named like the caller field and its members
		{"Info with an attribute named caller", "native", func(e *c14env) (s c14site) { e.l.Info(mark(&s), "caller", "10.0.0.7:443", "k", 1); return }},
		{"Warn with attributes named file, line, func and source", "native", func(e *c14env) (s c14site) { e.l.Warn(mark(&s), "file", "f.txt", "line", 7, "func", "fn", "source", "src"); return }},
		// call sites inside generic code
		{"Info from a method of a generic type", "native", func(e *c14env) (s c14site) { (&c14queue[int]{}).Push(e, &s); return }},
		{"Error from a generic function", "native", func(e *c14env) (s c14site) { c14generic(e, &s, "v"); return }},
	}
}

func c14from(s applog.Site) c14site { return c14site{s.PC, s.File, s.Line, s.Fn} }

type c14queue[T any] struct{ items []T }

//go:noinline
func (q *c14queue[T]) Push(e *c14env, s *c14site) { e.l.Info(mark(s), "k", len(q.items)) }

//go:noinline
func c14generic[T any](e *c14env, s *c14site, v T) { e.l.Error(mark(s), "k", v) }

// wrapper chains for skip counts: wrapN calls the native Info/ErrorContext n levels below the call site

//go:noinline
func c14wrapA1(l slog.Logger) { l.Info("m", "k", 1) }

//go:noinline
func c14wrapA2(l slog.Logger) { c14wrapA1(l) }

//go:noinline
func c14wrapA3(l slog.Logger) { c14wrapA2(l) }

//go:noinline
func c14wrapA4(l slog.Logger) { c14wrapA3(l) }

//go:noinline
func c14wrapA5(l slog.Logger) { c14wrapA4(l) }

//go:noinline
func c14wrapA6(l slog.Logger) { c14wrapA5(l) }

//go:noinline
func c14wrapA7(l slog.Logger) { c14wrapA6(l) }

//go:noinline
func c14wrapA8(l slog.Logger) { c14wrapA7(l) }

//go:noinline
func c14wrapA9(l slog.Logger) { c14wrapA8(l) }

//go:noinline
func c14wrapA10(l slog.Logger) { c14wrapA9(l) }

//go:noinline
func c14wrapA11(l slog.Logger) { c14wrapA10(l) }

//go:noinline
func c14wrapA12(l slog.Logger) { c14wrapA11(l) }

// inlinable variants
func c14wrapB1(l slog.Logger) { l.ErrorContext(context.Background(), "m", "k", 1) }
func c14wrapB2(l slog.Logger) { c14wrapB1(l) }
func c14wrapB3(l slog.Logger) { c14wrapB2(l) }
func c14wrapB4(l slog.Logger) { c14wrapB3(l) }

// closure wrapper
var c14wrapC1 = func(l slog.Logger) { l.LogAttrs(context.Background(), slog.InfoLevel, "m", "k", 1) }

//go:noinline
func c14wrapD1(sl *logslog.Logger) { sl.Info("m", "k", 1) }

//go:noinline
func c14wrapD2(sl *logslog.Logger) { c14wrapD1(sl) }

//go:noinline
func c14wrapE1(l slog.Logger) { l.Println(42) }

// c14adapter builds a log/slog logger on the adapter without changing the logger's format.
func c14adapter(l slog.Logger) *logslog.Logger {
	return logslog.New(slog.NewSlogHandler(l, &slog.HandlerOptions{NoColor: !l.ColorMode(), JSON: l.JSONMode()}))
}

type c14wrapCase struct {
	name string
	n    int
	call func(l slog.Logger) c14site
}

func c14wrappers() []c14wrapCase {
	return []c14wrapCase{
		{"noinline chain, Info", 1, func(l slog.Logger) (s c14site) { c14wrapA1(markV(&s, l)); return }},
		{"noinline chain, Info", 2, func(l slog.Logger) (s c14site) { c14wrapA2(markV(&s, l)); return }},
		{"noinline chain, Info", 3, func(l slog.Logger) (s c14site) { c14wrapA3(markV(&s, l)); return }},
		{"noinline chain, Info", 4, func(l slog.Logger) (s c14site) { c14wrapA4(markV(&s, l)); return }},
		{"noinline chain, Info", 7, func(l slog.Logger) (s c14site) { c14wrapA7(markV(&s, l)); return }},
		{"noinline chain, Info", 8, func(l slog.Logger) (s c14site) { c14wrapA8(markV(&s, l)); return }},
		{"noinline chain, Info", 9, func(l slog.Logger) (s c14site) { c14wrapA9(markV(&s, l)); return }},
		{"noinline chain, Info", 12, func(l slog.Logger) (s c14site) { c14wrapA12(markV(&s, l)); return }},
		{"inlinable chain, ErrorContext", 1, func(l slog.Logger) (s c14site) { c14wrapB1(markV(&s, l)); return }},
		{"inlinable chain, ErrorContext", 2, func(l slog.Logger) (s c14site) { c14wrapB2(markV(&s, l)); return }},
		{"inlinable chain, ErrorContext", 3, func(l slog.Logger) (s c14site) { c14wrapB3(markV(&s, l)); return }},
		{"inlinable chain, ErrorContext", 4, func(l slog.Logger) (s c14site) { c14wrapB4(markV(&s, l)); return }},
		{"closure wrapper, LogAttrs", 1, func(l slog.Logger) (s c14site) { c14wrapC1(markV(&s, l)); return }},
		{"log/slog adapter behind a wrapper", 1, func(l slog.Logger) (s c14site) {
			sl := c14adapter(l)
			c14wrapD1(markV(&s, sl))
			return
		}},
		{"log/slog adapter behind a wrapper", 2, func(l slog.Logger) (s c14site) {
			sl := c14adapter(l)
			c14wrapD2(markV(&s, sl))
			return
		}},
		{"Println(non-string) behind a wrapper", 1, func(l slog.Logger) (s c14site) { c14wrapE1(markV(&s, l)); return }},
		{"derived log/slog handler (With) behind a wrapper", 1, func(l slog.Logger) (s c14site) {
			sl := c14adapter(l).With("a", 1)
			c14wrapD1(markV(&s, sl))
			return
		}},
		{"derived log/slog handler (WithGroup, With) behind a wrapper", 2, func(l slog.Logger) (s c14site) {
			sl := c14adapter(l).WithGroup("g").With("a", 1)
			c14wrapD2(markV(&s, sl))
			return
		}},
	}
}

type c14case struct {
	Entry   string `json:"entry"`
	Format  string `json:"format"`
	Logger  string `json:"logger"` // root | child | default
	Skip    int    `json:"skip"`
	SkipVia string `json:"skip_via"` // "" | WithSkip | SetSkip
	// Prior: something done before the call that the statement says cannot matter.
	//  sibs       other WithSkip children (different counts) derived from the same parent before and after, all kept alive
	//  parent-skip  the parent has a skip count of its own (SetSkip(2)) when WithSkip(n) derives the child
	//  chained      parent.WithSkip(3).WithSkip(n)
	//  built-off  the adapter / bridge / child is built while caller information is switched off; it is switched on before the call
	Prior string `json:"prior,omitempty"`
}

func c14run1(cas c14case) *Violation {
	caseSeq++
	resetAlt(caseSeq)
	setFlagsVia(slog.LstdFlags|slog.Lcaller|slog.LnoInterrupt, caseSeq/2)
	rec := &recorder{}
	w := &plainW{"w", rec}
	var l slog.Logger
	switch cas.Logger {
	case "child":
		l = slog.New("parent").New("child")
	case "default":
		l = slog.Default()
	case "default=child":
		// a child logger (a plain *Entry) installed as the package default
		l = slog.New("droot").New("dchild")
		slog.SetDefault(l)
	default:
		l = slog.New("root")
	}
	mk := func(clause, detail string) *Violation {
		sig := fmt.Sprintf("C14|%s|entry=%s|format=%s|logger=%s|skip=%d(%s)|prior=%s", clause, cas.Entry, cas.Format, cas.Logger, cas.Skip, cas.SkipVia, cas.Prior)
		return mkViolation(sig, clause, detail, cas)
	}
	conf := func(x slog.Logger) {
		x.SetWriter(w).SetErrorWriter(w).SetLevel(slog.TraceLevel)
		slog.VerifRestoreModes(false, false)
		switch cas.Format {
		case "json":
			x.SetJSONMode(true)
		case "logfmt":
			x.SetColorMode(false)
		default:
			x.SetColorMode(true)
		}
	}
	conf(l)
	var site c14site
	var pan string
	if cas.Skip > 0 {
		var wc *c14wrapCase
		for _, x := range c14wrappers() {
			if x.name == cas.Entry && x.n == cas.Skip {
				x := x
				wc = &x
			}
		}
		if wc == nil {
			return nil
		}
		if cas.SkipVia == "SetSkip" {
			l.SetSkip(cas.Skip)
			if cas.Logger == "root" && cas.Skip%2 == 1 {
				// ... and only then is the logger installed as the package default (and the old default put back afterwards)
				old := slog.Default()
				slog.SetDefault(l)
				defer slog.SetDefault(old)
			}
		} else {
			parent := l
			var keep []slog.Logger
			if cas.Prior == "sibs" {
				keep = append(keep, parent.WithSkip(cas.Skip+1), parent.WithSkip(0))
			}
			switch cas.Prior {
			case "parent-skip":
				parent.SetSkip(2)
			case "chained":
				parent = parent.WithSkip(3)
			}
			l = parent.WithSkip(cas.Skip)
			conf(l)
			if cas.Prior == "sibs" {
				keep = append(keep, parent.WithSkip(cas.Skip+2), parent.WithSkip(cas.Skip-1))
				for _, k := range keep {
					conf(k)
				}
				defer runtime.KeepAlive(keep)
			}
		}
		pan = catch(func() { site = wc.call(l) })
	} else {
		var ent *c14entry
		es := c14entries()
		for i := range es {
			if es[i].name == cas.Entry {
				ent = &es[i]
			}
		}
		if ent == nil {
			return nil
		}
		if ent.kind == "package" && cas.Logger != "default" && cas.Logger != "default=child" {
			return nil
		}
		env := &c14env{l: l, ctx: context.Background(), conf: conf, reset: rec.reset}
		if cas.Prior == "built-off" {
			slog.RemoveFlags(slog.Lcaller)
			if ent.kind == "native" && cas.Logger == "child" {
				l = slog.New("parent2").New("child2")
				conf(l)
				env.l = l
			}
		}
		switch ent.kind {
		case "adapter":
			h := slog.NewSlogHandler(l, &slog.HandlerOptions{NoColor: cas.Format != "color", JSON: cas.Format == "json"})
			env.sl = logslog.New(h)
		case "bridge":
			env.std = slog.NewLogLogger(l, slog.InfoLevel)
		}
		if cas.Prior == "built-off" {
			slog.AddFlags(slog.Lcaller)
		}
		pan = catch(func() { site = ent.call(env) })
	}
	if pan != "" {
		return mk("call-returns", "the call panicked: "+firstLine(pan))
	}
	if len(rec.events) != 1 {
		return mk("one-record", fmt.Sprintf("%d records written", len(rec.events)))
	}
	p := rec.events[0].Payload
	if p == "\n" {
		return nil // a blank Print/Println is a bare newline (C02); nothing to attribute
	}
	wantFile := slog.Safety(site.file)
	wantFn := site.fn
	var gotFile, gotFn string
	var gotLine int
	switch cas.Format {
	case "json":
		// (an attribute may be named like the caller field: the statement is about the field the library writes, the later one)
		obj, err := jsonx.DecodeLineKeepDuplicates([]byte(p))
		if err != nil {
			return mk("decodable", fmt.Sprintf("%v: %.200q", err, p))
		}
		cv, _ := obj.GetLast("caller")
		co, ok := cv.(*jsonx.Obj)
		if !ok {
			return mk("caller-present", fmt.Sprintf("no caller object in %.200q", p))
		}
		f, _ := co.Get("file")
		gotFile, _ = f.(string)
		fn, _ := co.Get("function")
		gotFn, _ = fn.(string)
		if ln, ok := co.Get("line"); ok {
			if num, ok := ln.(json.Number); ok {
				gotLine, _ = strconv.Atoi(num.String())
			}
		}
	case "logfmt":
		first := p
		if i := strings.IndexByte(p, '\n'); i >= 0 && slog.VerifInTesting() {
			first = p[:i+1] // under go test an error dump may follow the record's own line (C05 is stated for production mode)
		}
		pairs, err := logfmt.ParseLine([]byte(first))
		if err != nil {
			return mk("decodable", fmt.Sprintf("%v: %.200q", err, p))
		}
		for _, pr := range pairs {
			switch pr.Key {
			case "caller.file":
				gotFile = pr.Val
			case "caller.line":
				gotLine, _ = strconv.Atoi(pr.Val)
			case "caller.function":
				gotFn = pr.Val
			}
		}
	default:
		text := strings.TrimRight(slog.StripEscapes(p), "\n")
		if i := strings.IndexByte(text, '\n'); i >= 0 {
			text = text[:i]
		}
		f := strings.Fields(text)
		if len(f) < 2 {
			return mk("decodable", fmt.Sprintf("unexpected colored record %.200q", text))
		}
		gotFn = f[len(f)-1]
		fl := f[len(f)-2]
		j := strings.LastIndexByte(fl, ':')
		if j < 0 {
			return mk("decodable", fmt.Sprintf("no file:line in %.200q", text))
		}
		gotFile = fl[:j]
		gotLine, _ = strconv.Atoi(fl[j+1:])
		wantFn = slog.VerifCheckedFuncName(wantFn)
	}
	if gotFile != wantFile || gotLine != site.line {
		return mk("file-and-line", fmt.Sprintf("record says %s:%d, the call statement is at %s:%d; payload %.250q", gotFile, gotLine, wantFile, site.line, p))
	}
	if gotFn != wantFn {
		return mk("function", fmt.Sprintf("record says function %q, the call statement is in %q", gotFn, wantFn))
	}
	c14last = fmt.Sprintf("%s:%d", gotFile, gotLine)
	return nil
}

var c14last string

func init() {
	register(&CheckDef{ID: "C14", Run: func(c *Ctx) {
		c.Flag("exhaustive", true)
		n := 0
		emit := func(cas c14case) {
			n++
			if !c.Mine(n) || c.Expired() {
				return
			}
			c.Count("evaluations", 1)
			if v := c14run1(cas); v != nil {
				c.Violate(v)
				return
			}
			c.Count("distinct_nontrivial", 1)
			c.Outcome(c14last + cas.Format + cas.Logger)
			if n%97 == 0 {
				c.Sample(cas)
			}
		}
		for _, f := range []string{"json", "logfmt", "color"} {
			for _, lg := range []string{"root", "child", "default", "default=child"} {
				for _, e := range c14entries() {
					emit(c14case{Entry: e.name, Format: f, Logger: lg})
					if workerVerboseBuild {
						continue // (in that build the library traces AddFlags and the like through Verbose itself: plain cases only)
					}
					if e.kind == "adapter" || e.kind == "bridge" || c.Thorough() || lg == "child" {
						emit(c14case{Entry: e.name, Format: f, Logger: lg, Prior: "built-off"})
					}
				}
				for _, wcase := range c14wrappers() {
					if workerVerboseBuild {
						break
					}
					for _, via := range []string{"WithSkip", "SetSkip"} {
						emit(c14case{Entry: wcase.name, Format: f, Logger: lg, Skip: wcase.n, SkipVia: via})
					}
					emit(c14case{Entry: wcase.name, Format: f, Logger: lg, Skip: wcase.n, SkipVia: "WithSkip", Prior: "sibs"})
					emit(c14case{Entry: wcase.name, Format: f, Logger: lg, Skip: wcase.n, SkipVia: "WithSkip", Prior: "parent-skip"})
					emit(c14case{Entry: wcase.name, Format: f, Logger: lg, Skip: wcase.n, SkipVia: "WithSkip", Prior: "chained"})
				}
			}
		}
		c.Info("entry_points", len(c14entries()))
		c.Info("wrapper_cases", len(c14wrappers()))
		c.Info("build_pass", fmt.Sprint(osGetenv("VERIF_PASS")))
	}, Replay: func(raw json.RawMessage) *Violation {
		var cas c14case
		if json.Unmarshal(raw, &cas) != nil {
			return nil
		}
		return c14run1(cas)
	}})
}
