package main

// C16 - timestamps show the record's instant in the configured zone and layout. Shape I.

import (
	"encoding/json"
	"fmt"
	"strings"
	"time"
	_ "time/tzdata"

	"github.com/hedzr/logg/slog"

	"verif/oracle/jsonx"
	"verif/oracle/logfmt"
)

type c16case struct {
	Instant   string `json:"instant"`  // RFC3339Nano in its own zone
	Zone      string `json:"zone"`     // "UTC", "+05:30" style fixed offset, or IANA name
	Flags     int    `json:"dt_flags"` // bit0 Ldate, bit1 Ltime, bit2 Lmicroseconds
	LocalTime bool   `json:"local_time_flag"`
	UTCMode   string `json:"utc_mode"` // unset | false | true | default-arg
	Layout    string `json:"layout"`   // "" = unset; "<default>" = SetTimeFormat() without argument
	Format    string `json:"format"`
	Prior     string `json:"prior_record,omitempty"` // "" | utc-logger | local-layout-logger : a record emitted just before by another logger
	Attr      string `json:"attr,omitempty"`         // "time" = the record carries an attribute named time (another instant) and one named t
	FlagPath  string `json:"flag_path,omitempty"`    // "" = SetFlags | "scope" = a SaveFlagsAndMod scope toggling the date/time flags has just ended | "late" = the flags are set after the loggers were created under the opposite flags
	Sec       int64  `json:"unix_sec,omitempty"`     // used instead of Instant for years outside 0..9999
	Nsec      int64  `json:"unix_nsec,omitempty"`
}

// reference table flag-combination -> layout, written from the documented
// meaning of the flags (date part / time part / microseconds); nil = the
// combination is not given a meaning by the flags' documentation ('do print date part / time part /
// microseconds part'), any layout of the family is accepted.
var c16flagLayouts = map[int][]string{
	1:         {"2006-01-02"},
	2:         {"15:04:05Z07:00"},
	2 | 4:     {"15:04:05.000000Z07:00"},
	1 | 2:     {"2006-01-0215:04:05Z07:00", "2006-01-02T15:04:05Z07:00", "2006-01-02 15:04:05Z07:00"},
	1 | 2 | 4: {"2006-01-02T15:04:05.000000Z07:00"},
	0:         nil,
	// microseconds asked for without a time part: the layout must at least carry the microseconds
	4: {"15:04:05.000000Z07:00", "2006-01-02T15:04:05.000000Z07:00"},
	// date part and microseconds: the only layout of the family that prints both
	1 | 4: {"2006-01-02T15:04:05.000000Z07:00"},
}

var c16family = []string{"2006-01-02", "15:04:05Z07:00", "15:04:05.000000Z07:00", "2006-01-0215:04:05Z07:00", "2006-01-02T15:04:05.000000Z07:00"}

func c16loc(zone string) *time.Location {
	switch {
	case zone == "UTC":
		return time.UTC
	case zone == "GMT0":
		return time.FixedZone("GMT", 0) // offset zero, but not UTC: a layout with the zone abbreviation tells them apart
	case strings.HasPrefix(zone, "+") || strings.HasPrefix(zone, "-"):
		var h, m int
		fmt.Sscanf(zone[1:], "%d:%d", &h, &m)
		off := h*3600 + m*60
		if zone[0] == '-' {
			off = -off
		}
		return time.FixedZone("", off)
	}
	// one *time.Location per zone name for the whole process, as programs that load a zone once have it
	if l, ok := c16locs[zone]; ok {
		return l
	}
	l, err := time.LoadLocation(zone)
	if err != nil {
		panic(err)
	}
	c16locs[zone] = l
	return l
}

var c16locs = map[string]*time.Location{}

func c16eval(cas c16case) *Violation {
	// the process's own zone is not UTC: "the instant's own zone" and "the machine's zone" are different things
	time.Local = time.FixedZone("verif-local", -(7*3600 + 30*60))
	loc := c16loc(cas.Zone)
	t0, err := time.Parse(time.RFC3339Nano, cas.Instant)
	if cas.Instant == "" {
		t0, err = time.Unix(cas.Sec, cas.Nsec), nil // years outside 0..9999 have no RFC 3339 text that parses back
	}
	if err != nil {
		return nil
	}
	inst := t0.In(loc)
	caseSeq++
	resetAlt(caseSeq)
	fl := slog.LstdFlags &^ (slog.Ldatetimeflags | slog.LlocalTime | slog.Lcaller)
	if cas.Flags&1 != 0 {
		fl |= slog.Ldate
	}
	if cas.Flags&2 != 0 {
		fl |= slog.Ltime
	}
	if cas.Flags&4 != 0 {
		fl |= slog.Lmicroseconds
	}
	if cas.LocalTime {
		fl |= slog.LlocalTime
	}
	if cas.FlagPath == "late" {
		// the loggers are created (and configured) while the process-wide flags say the opposite; the flags of the case are set just before the record
		setFlagsVia(fl^(slog.Ldatetimeflags|slog.LlocalTime), caseSeq/2)
	} else {
		setFlagsVia(fl, caseSeq/2)
	}
	if cas.FlagPath == "scope" {
		restore := slog.SaveFlagsAndMod(slog.Ldatetimeflags&^(fl&slog.Ldatetimeflags)|slog.LlocalTime&^(fl&slog.LlocalTime), fl&slog.Ldatetimeflags, fl&slog.LlocalTime)
		restore()
	}
	rec := &recorder{}
	w := &plainW{"w", rec}
	if cas.Prior != "" && cas.Prior != "same-logger-first" && cas.Prior != "child-of-configured-parent" {
		// another logger formats a record first (same pools): its time settings must not leak
		o := slog.New("other").SetWriter(w).SetErrorWriter(w).SetLevel(slog.AlwaysLevel)
		if cas.Prior == "utc-logger" {
			o.SetUTCMode(true)
		} else {
			o.SetUTCMode(false).SetTimeFormat(time.RFC1123Z)
		}
		o.WriteThru(bg, slog.InfoLevel, time.Date(2001, 2, 3, 4, 5, 6, 7, time.FixedZone("", -3*3600)), 0, "prior", nil)
		rec.reset()
	}
	l := slog.New("lg").SetWriter(w).SetErrorWriter(w).SetLevel(slog.AlwaysLevel)
	if cas.Prior == "child-of-configured-parent" {
		// the logger is a child of a parent that has a layout and a zone mode of its own: nothing was chosen for the child
		p := slog.New("parent").SetTimeFormat(time.RFC850).SetUTCMode(cas.LocalTime) // (the mode that disagrees with what the flags say)
		l = p.New("lg").SetWriter(w).SetErrorWriter(w).SetLevel(slog.AlwaysLevel)
	}
	c16format(l, cas.Format)
	if cas.Prior == "same-logger-first" {
		// the logger itself logs before its time settings are chosen, and nobody else logs in between
		l.WriteThru(bg, slog.InfoLevel, time.Date(2001, 2, 3, 4, 5, 6, 7, time.FixedZone("", -3*3600)), 0, "prior", nil)
		rec.reset()
	}
	utc := !cas.LocalTime
	switch cas.UTCMode {
	case "true":
		l.SetUTCMode(true)
		utc = true
	case "default-arg":
		l.SetUTCMode()
		utc = true
	case "false-then-default-arg":
		l.SetUTCMode(false)
		l.SetUTCMode()
		utc = true
	case "true-then-false":
		l.SetUTCMode(true)
		l.SetUTCMode(false)
		utc = false
	case "false-then-true":
		l.SetUTCMode(false).SetUTCMode(true)
		utc = true
	case "default-arg-then-false":
		l.SetUTCMode()
		l.SetUTCMode(false)
		utc = false
	case "option-false-then-option-default":
		l = slog.New("lg", slog.WithUTCMode(false), slog.WithUTCMode()).SetWriter(w).SetErrorWriter(w).SetLevel(slog.AlwaysLevel)
		c16format(l, cas.Format)
		utc = true
	case "variadic-false-true":
		l.SetUTCMode(false, true) // the last argument wins
		utc = true
	case "variadic-true-false":
		l.SetUTCMode(true, false)
		utc = false
	case "option-true":
		l = slog.New("lg", slog.WithUTCMode(true)).SetWriter(w).SetErrorWriter(w).SetLevel(slog.AlwaysLevel)
		c16format(l, cas.Format)
		utc = true
	case "option-false":
		l = slog.New("lg", slog.WithUTCMode(false)).SetWriter(w).SetErrorWriter(w).SetLevel(slog.AlwaysLevel)
		c16format(l, cas.Format)
		utc = false
	case "false":
		l.SetUTCMode(false)
		utc = false
	}
	var layouts []string
	switch cas.Layout {
	case "":
		layouts = c16flagLayouts[cas.Flags]
		if layouts == nil {
			layouts = c16family
		}
	case "<default>":
		l.SetTimeFormat()
		layouts = []string{time.RFC3339Nano}
	default:
		if len(cas.Layout)%2 == 0 {
			l.SetTimeFormat(cas.Layout)
		} else {
			l.SetTimeFormat("", cas.Layout, "") // empty entries of the list are skipped, the last non-empty one counts
		}
		layouts = []string{cas.Layout}
	}
	if cas.FlagPath == "late" {
		setFlagsVia(fl, caseSeq/2+1)
	}
	var attrs slog.Attrs
	if cas.Attr == "time" {
		// attributes named like the timestamp field: the record's own instant is still the one it was given
		other := time.Date(2001, 2, 3, 4, 5, 6, 7, time.FixedZone("", -3*3600))
		attrs = slog.Attrs{slog.NewAttr("t", other), slog.NewAttr("time", other), slog.NewAttr("z", 1)}
	}
	pan := catch(func() { l.WriteThru(bg, slog.InfoLevel, inst, 0, "m", attrs) })
	mk := func(clause, detail string) *Violation {
		sig := fmt.Sprintf("C16|%s|format=%s|flags=%d|localtime=%v|utc=%s|layout=%q|zone=%s|prior=%s|flags-via=%s%s", clause, cas.Format, cas.Flags, cas.LocalTime, cas.UTCMode, cas.Layout, cas.Zone, cas.Prior, cas.FlagPath, map[bool]string{true: "|attr=" + cas.Attr}[cas.Attr != ""])
		return mkViolation(sig, clause, detail, cas)
	}
	if pan != "" {
		return mk("call-returns", firstLine(pan))
	}
	if len(rec.events) != 1 {
		return mk("one-write", fmt.Sprintf("%d writes", len(rec.events)))
	}
	p := rec.events[0].Payload
	var text string
	switch cas.Format {
	case "json":
		obj, err := jsonx.DecodeLineKeepDuplicates([]byte(p)) // (an attribute may be named time as well: the timestamp is the first member)
		if err != nil {
			return mk("decodable", fmt.Sprintf("%v: %.200q", err, p))
		}
		tv, _ := obj.Get("time")
		s, ok := tv.(string)
		if !ok {
			return mk("time-field", fmt.Sprintf("no string time member: %.200q", p))
		}
		text = s
	case "logfmt":
		pairs, err := logfmt.ParseLine([]byte(p))
		if err != nil || len(pairs) == 0 || pairs[0].Key != "time" {
			return mk("decodable", fmt.Sprintf("%v: %.200q", err, p))
		}
		text = pairs[0].Val
	default:
		st := slog.StripEscapes(p)
		i := strings.Index(st, "| ")
		if i < 0 {
			return mk("time-field", fmt.Sprintf("no `| ` after the timestamp: %.200q", st))
		}
		text = st[:i]
	}
	want := inst
	if utc {
		want = inst.UTC()
	}
	var exp []string
	for _, lay := range layouts {
		e := want.Format(lay)
		exp = append(exp, e)
		if e == text {
			if y := want.Year(); y < 0 || y > 9999 {
				c16last = text
				return nil // package time cannot parse years outside 0..9999 back: the text was compared with Format
			}
			if strings.Contains(lay, "MST") {
				c16last = text
				return nil // package time cannot parse the abbreviation of an unnamed zone back: the text was compared with Format
			}
			// round trip: parsing the text with the layout gives back the instant to the layout's precision
			back, err := time.Parse(lay, text)
			if err != nil {
				return mk("parses-back", fmt.Sprintf("printed %q does not parse with layout %q: %v", text, lay, err))
			}
			if back.Format(lay) != text {
				return mk("parses-back", fmt.Sprintf("printed %q re-formats to %q", text, back.Format(lay)))
			}
			c16last = text
			return nil
		}
	}
	return mk("instant-zone-layout", fmt.Sprintf("printed time %q, expected %q (instant %s, expected zone %s, layouts %q)", text, exp, cas.Instant, map[bool]string{true: "UTC", false: "the instant's own"}[utc], layouts))
}

var c16last string

func c16cases(thorough bool, emit func(c16case)) {
	zones := []string{"UTC", "+05:30", "-08:00", "+14:00", "America/New_York", "Europe/Lisbon", "-03:30", "-09:30", "-00:44", "GMT0"}
	var instants []time.Time
	for _, y := range []int{1, 1970, 2024, 9999, 12345, -50} {
		for _, md := range [][2]int{{1, 1}, {2, 29}, {12, 31}} {
			for _, hms := range [][3]int{{0, 0, 0}, {23, 59, 59}, {12, 30, 1}} {
				for _, ns := range []int{0, 1, 123456000, 999999999, 999999500} {
					instants = append(instants, time.Date(y, time.Month(md[0]), md[1], hms[0], hms[1], hms[2], ns, time.UTC))
				}
			}
		}
	}
	// both sides of the DST switches of 2024 (New York: Mar 10 07:00 UTC, Nov 3 06:00 UTC)
	for _, s := range []string{"2024-03-10T06:59:59.5Z", "2024-03-10T07:00:00Z", "2024-11-03T05:59:59.999999999Z", "2024-11-03T06:00:00.000001Z", "2024-03-31T00:59:59Z", "2024-03-31T01:00:00Z"} {
		t, _ := time.Parse(time.RFC3339Nano, s)
		instants = append(instants, t)
	}
	layouts := []string{"", "<default>", time.RFC3339Nano, time.RFC1123Z, time.Kitchen, time.StampMicro, "2006-01-02 15:04:05.000", "Jan _2 2006 15:04:05.000000000 -0700", time.RFC1123}
	for ii, t := range instants {
		for zi, z := range zones {
			if !thorough && (ii+zi)%3 != 0 {
				continue
			}
			for flags := 0; flags < 8; flags++ {
				for _, lt := range []bool{false, true} {
					for ui, um := range []string{"unset", "false", "true", "default-arg", "false-then-default-arg", "true-then-false", "false-then-true", "default-arg-then-false",
						"option-false-then-option-default", "option-true", "option-false", "variadic-false-true", "variadic-true-false"} {
						for li, lay := range layouts {
							if ui >= 4 && !(li <= 1 && (flags == 0 || flags == 7)) && !(thorough && li <= 3) {
								continue // sequences of mode-setting calls: with the flag-driven and default layouts (thorough: two explicit layouts more)
							}
							if lay != "" && flags != 0 && flags != 7 && !thorough {
								continue // an explicit layout makes the flags irrelevant; two flag values suffice in quick
							}
							for fi, f := range []string{"json", "logfmt", "color"} {
								if !thorough && (ii+zi+li+fi+flags)%2 != 0 {
									continue
								}
								cas := c16case{Instant: t.In(c16loc(z)).Format(time.RFC3339Nano), Zone: z, Flags: flags, LocalTime: lt, UTCMode: um, Layout: lay, Format: f}
								if y := t.In(c16loc(z)).Year(); y < 0 || y > 9999 || t.UTC().Year() < 0 || t.UTC().Year() > 9999 {
									cas.Instant, cas.Sec, cas.Nsec = "", t.Unix(), int64(t.Nanosecond())
								}
								emit(cas)
								// a rotating variant: a prior record of another logger, or flags that went through a save/restore scope
								k := ii + zi + li + fi + flags
								j := k / 2 // k is even in quick (see the skip above)
								if thorough || j%3 == 0 {
									v := cas
									sel := k
									if !thorough {
										sel = j / 3
									}
									switch sel % 7 {
									case 6:
										v.Attr = "time"
									case 5:
										v.FlagPath = "late"
									case 4:
										v.Prior = "child-of-configured-parent"
									case 0:
										v.Prior = "utc-logger"
									case 1:
										v.Prior = "local-layout-logger"
									case 2:
										v.Prior = "same-logger-first"
									default:
										v.FlagPath = "scope"
									}
									emit(v)
								}
							}
						}
					}
				}
			}
		}
	}
}

func init() {
	register(&CheckDef{ID: "C16", Run: func(c *Ctx) {
		c.Flag("exhaustive", true)
		n := 0
		c16cases(c.Thorough(), func(cas c16case) {
			n++
			if !c.Mine(n) || c.Expired() {
				return
			}
			c.Count("evaluations", 1)
			if cas.Prior != "" || cas.FlagPath != "" {
				c.Count("variant_"+cas.Prior+cas.FlagPath, 1)
			}
			if v := c16eval(cas); v != nil {
				c.Violate(v)
				return
			}
			c.Count("distinct_nontrivial", 1)
			c.Outcome(c16last)
			if n%30011 == 0 {
				c.Sample(cas)
			}
		})
		c.Assume("years outside 1..9999 are excluded: the standard layouts cannot express them")
		c.Assume("flag combinations without Ldate/Ltime meaning (none, microseconds only, date+microseconds) accept any layout of the built-in family")
	}, Replay: func(raw json.RawMessage) *Violation {
		var cas c16case
		if json.Unmarshal(raw, &cas) != nil {
			return nil
		}
		return c16eval(cas)
	}})
}

func c16format(l slog.Logger, f string) {
	switch f {
	case "json":
		l.SetJSONMode(true)
	case "logfmt":
		l.SetColorMode(false)
	default:
		l.SetColorMode(true)
	}
}
