//go:build verbose

package main

// the worker (and with it hedzr/logg) is built with -tags verbose: Verbose / VerboseContext emit Trace records
const workerVerboseBuild = true
