package main

// C18 - path hardening. Shape H over the mapping tables (BFS to a fixpoint under
// a size cap) x shape I over paths and flags x every iteration order of the
// mapping table (R2 seam).

import (
	"encoding/json"
	"fmt"
	"os"
	"path/filepath"
	"regexp"
	"runtime"
	"sort"
	"strings"

	"github.com/hedzr/logg/slog"

	"verif/oracle/jsonx"
)

type c18op struct {
	Kind string `json:"kind"` // add remove reset addre removere resetre
	Arg  int    `json:"arg"`
}

var c18plain = [][2]string{
	{"/opt/secret", "$S"},
	{"/opt/secret/deep", "$D"},
	{"/opt", "/o"},
	{"/srv/x", "/s"},
	{"/verif", "$V"},
	{"/vault/customer-x/", "$X/"},
	{"corp.example.com/secret-team", "$T"}, // a directory that is not an absolute path (module-relative names of -trimpath builds)
	{"/srv/ci/app$nightly/w", "~work-tree-of-the-nightly-build"}, // a '$' in the directory name; a short form that is longer than the directory
	{"/opt/secret", "$S2"}, // the same directory as the first entry under another short form: registering it again replaces the form
	{"${CWD}", "~proj"},    // the directory the process was started in (the key of the built-in "." rule), under a name of the user's own
}

// the user's home directory and the working directory of the process as it started, asked from the operating system
// when the worker starts (before any Chdir of the harness) - not read from the package
var c18home, _ = os.UserHomeDir()
var c18cwd0, _ = os.Getwd()

func c18homeCwd() (string, string) { return c18home, c18cwd0 }

func c18key(i int) string { return c18expand(c18plain[i][0]) }

var c18regexps = [][2]string{
	{`^/data/[0-9]+/`, "#"},
	{`/Volumes/[^/]+/`, "~"}, // the built-in one
	{`^/mnt/([a-z]+)/`, "@$1:"},
}

var c18readable, c18readableKnown bool

// c18tablesReadable: can the harness read the mapping tables of this tree (asked once, before anything else)?
func c18tablesReadable() bool {
	if !c18readableKnown {
		c18readable = !slog.VerifTry(func() { slog.VerifKnownPathMap(); slog.VerifKnownPathRegexps() })
		c18readableKnown = true
	}
	return c18readable
}

var c18selfLoopPaths = []string{"${HOME}/a.go", "${CWD}/a.go", "/Volumes/V/p/a.go", "/opt/secret/deep/f.go", "/mnt/abc/q.go", "rel/a.go", "/srv/x/opt/secret/f.go", "/tmp/zz.go"}

const c18badPattern = "/broken/([^/]+"

func (o c18op) String() string {
	switch o.Kind {
	case "add":
		return fmt.Sprintf("AddKnownPathMapping(%q,%q)", c18plain[o.Arg][0], c18plain[o.Arg][1])
	case "remove":
		if o.Arg == len(c18plain) {
			return "RemoveKnownPathMapping($HOME)"
		}
		return fmt.Sprintf("RemoveKnownPathMapping(%q)", c18plain[o.Arg][0])
	case "reset":
		return "ResetKnownPathMapping()"
	case "addre":
		if o.Arg == len(c18regexps) {
			return fmt.Sprintf("AddKnownPathRegexpMapping(%q,\"!\") under recover (the pattern does not compile)", c18badPattern)
		}
		return fmt.Sprintf("AddKnownPathRegexpMapping(%q,%q)", c18regexps[o.Arg][0], c18regexps[o.Arg][1])
	case "removere":
		return fmt.Sprintf("RemoveKnownPathRegexpMapping(%q)", c18regexps[o.Arg][0])
	case "Reset":
		return "Reset()"
	}
	return "ResetKnownPathRegexpMapping()"
}

func c18ops() []c18op {
	var ops []c18op
	for i := range c18plain {
		ops = append(ops, c18op{"add", i}, c18op{"remove", i})
	}
	ops = append(ops, c18op{"remove", len(c18plain)}, c18op{"reset", 0})
	for i := range c18regexps {
		ops = append(ops, c18op{"addre", i}, c18op{"removere", i})
	}
	ops = append(ops, c18op{"addre", len(c18regexps)}) // a pattern that does not compile: whatever the call does (it may panic), nothing is registered
	ops = append(ops, c18op{"resetre", 0})
	ops = append(ops, c18op{"Reset", 0}) // slog.Reset(): level and flags only; the mapping tables stay as they are
	return ops
}

func c18apply(o c18op) {
	home, _ := c18homeCwd()
	switch o.Kind {
	case "add":
		slog.AddKnownPathMapping(c18key(o.Arg), c18plain[o.Arg][1])
	case "remove":
		if o.Arg == len(c18plain) {
			slog.RemoveKnownPathMapping(home)
		} else {
			slog.RemoveKnownPathMapping(c18key(o.Arg))
		}
	case "reset":
		slog.ResetKnownPathMapping()
	case "addre":
		if o.Arg == len(c18regexps) {
			catch(func() { slog.AddKnownPathRegexpMapping(c18badPattern, "!") })
			return
		}
		slog.AddKnownPathRegexpMapping(c18regexps[o.Arg][0], c18regexps[o.Arg][1])
	case "removere":
		slog.RemoveKnownPathRegexpMapping(c18regexps[o.Arg][0])
	case "resetre":
		slog.ResetKnownPathRegexpMapping()
	case "Reset":
		slog.Reset()
	}
}

// reference model of the tables
type c18tables struct {
	plain map[string]string
	re    [][2]string
}

func (t c18tables) key() string {
	var ks []string
	for k, v := range t.plain {
		ks = append(ks, k+"=>"+v)
	}
	sort.Strings(ks)
	return strings.Join(ks, ",") + " | " + fmt.Sprint(t.re)
}

func c18modelApply(t c18tables, o c18op, home string) c18tables {
	n := c18tables{plain: map[string]string{}, re: append([][2]string{}, t.re...)}
	for k, v := range t.plain {
		n.plain[k] = v
	}
	switch o.Kind {
	case "add":
		n.plain[c18key(o.Arg)] = c18plain[o.Arg][1]
	case "remove":
		if o.Arg == len(c18plain) {
			delete(n.plain, home)
		} else {
			delete(n.plain, c18key(o.Arg))
		}
	case "reset":
		n.plain = map[string]string{}
	case "addre":
		if o.Arg < len(c18regexps) {
			n.re = append(n.re, c18regexps[o.Arg])
		}
	case "removere":
		for i, r := range n.re {
			if r[0] == c18regexps[o.Arg][0] {
				n.re = append(n.re[:i:i], n.re[i+1:]...)
				break
			}
		}
	case "resetre":
		n.re = nil
	}
	return n
}

func isDirPrefix(prefix, path string) bool {
	if prefix == "" || !strings.HasPrefix(path, prefix) {
		return false
	}
	return len(path) == len(prefix) || path[len(prefix)] == '/' || strings.HasSuffix(prefix, "/")
}

func equivalentShorterRel(in, out, cwd string) bool {
	if filepath.IsAbs(out) || len(out) >= len(in) || out == "" {
		return false
	}
	return filepath.Join(cwd, out) == filepath.Clean(in)
}

// c18oracle checks one (input, output) pair against the statement.
func c18oracle(in, out string, t c18tables, privacy, reFlag bool, cwd string) (clause, detail string) {
	var applicable [][2]string
	if privacy {
		for k, v := range t.plain {
			if isDirPrefix(k, in) {
				applicable = append(applicable, [2]string{k, v})
				if isDirPrefix(k, out) && !isDirPrefix(k, v) {
					return "protected-prefix-hidden", fmt.Sprintf("%q lies under the mapping %q=>%q but is reported as %q", in, k, v, out)
				}
			}
		}
	}
	reApplies := false
	if privacy && reFlag {
		for _, r := range t.re {
			re := regexp.MustCompile(r[0])
			if loc := re.FindStringIndex(in); loc != nil {
				reApplies = true
				if loc[0] == 0 && strings.HasPrefix(out, in[:loc[1]]) {
					return "protected-prefix-hidden", fmt.Sprintf("%q matches the regexp mapping %q at its start but is reported as %q", in, r[0], out)
				}
				if m := in[loc[0]:loc[1]]; loc[0] > 0 && len(m) > 1 && strings.Contains(out, m) && !strings.Contains(re.ReplaceAllString(m, r[1]), m) && !equivalentShorterRel(in, out, cwd) {
					return "protected-prefix-hidden", fmt.Sprintf("%q contains %q, which the regexp mapping %q=>%q protects, but is reported as %q", in, m, r[0], r[1], out)
				}
			}
		}
	}
	builtinVolumes := privacy && !reFlag && strings.HasPrefix(in, "/Volumes/")
	if len(applicable) == 0 && !reApplies && !builtinVolumes {
		if out != in && !equivalentShorterRel(in, out, cwd) {
			return "outside-unchanged", fmt.Sprintf("%q lies under no mapping but is reported as %q (neither unchanged nor a shorter equivalent relative path)", in, out)
		}
		return "", ""
	}
	if len(applicable) == 1 && !reApplies && !builtinVolumes {
		k, v := applicable[0][0], applicable[0][1]
		want := v + in[len(k):]
		// the replacement may itself fall under another mapping only in the nested-prefix cases, which have >1 applicable mappings
		if out != want && !equivalentShorterRel(in, out, cwd) {
			return "prefix-replaced-by-short-form", fmt.Sprintf("%q lies under the mapping %q=>%q only; reported %q, expected %q", in, k, v, out, want)
		}
	}
	return "", ""
}

type c18case struct {
	Ops     []c18op `json:"ops"`
	Privacy bool    `json:"privacy_flag"`
	ReFlag  bool    `json:"regexp_flag"`
	Path    string  `json:"path"`
	Perm    []int   `json:"perm"`
	Via     string  `json:"via"`             // Safety | SafetyFiles | record
	Chdir   string  `json:"chdir,omitempty"` // the process changes its working directory to this one first
}

func permutations(n int) [][]int {
	if n <= 1 {
		return [][]int{nil}
	}
	var res [][]int
	p := make([]int, n)
	for i := range p {
		p[i] = i
	}
	var rec func(k int)
	rec = func(k int) {
		if k == n {
			res = append(res, append([]int{}, p...))
			return
		}
		for i := k; i < n; i++ {
			p[k], p[i] = p[i], p[k]
			rec(k + 1)
			p[k], p[i] = p[i], p[k]
		}
	}
	rec(0)
	return res
}

func c18expand(p string) string {
	home, cwd := c18homeCwd()
	p = strings.ReplaceAll(p, "${CWDUP}", filepath.Dir(cwd))
	return strings.ReplaceAll(strings.ReplaceAll(p, "${HOME}", home), "${CWD}", cwd)
}

func c18symbolic(s string) string {
	home, cwd := c18homeCwd()
	if cwd != "" {
		s = strings.ReplaceAll(s, cwd, "${CWD}")
	}
	if home != "" {
		s = strings.ReplaceAll(s, home, "${HOME}")
	}
	return s
}

func c18paths(_, _ string) []string {
	home, cwd := "${HOME}", "${CWD}"
	ps := []string{home, home + "/a.go", home + "kit/a.go", home + "/x" + home + "/y.go", home + "/", cwd + "/a.go", cwd, cwd + "x/b.go",
		"/Volumes/V/p/a.go", "/Volumes/V", "/x/Volumes/V/p/a.go", "/", "", "rel/a.go", "./a.go", "../a.go", "/" + strings.Repeat("d/", 150) + "f.go",
		"/data/12/x.go", "/data/x/y.go", "/mnt/abc/q.go", "/opt/secret/deep/f.go", "/opt/secretive/f.go", "/opt/secret/deeper/f.go", "/optional/f.go",
		"/srv/x/opt/secret/f.go", "/opt/secret/opt/secret/f.go", "/vault/customer-x/src/a.go", "/vault/customer-x", "/vault/customer-xy/a.go",
		"${CWDUP}/zz.go", "${CWDUP}", "/tmp/zz.go", "/var/zz/a.go", "/srv/Volumes/V2/q/a.go", "/opt/secret/Volumes/V3/p/a.go", "${HOME}/Volumes/V4/p/a.go"}
	for _, m := range c18plain {
		ps = append(ps, m[0], m[0]+"/f.go", m[0]+"x/f.go")
	}
	return ps
}

func c18setFlags(privacy, re bool) {
	fl := slog.LstdFlags &^ (slog.Lprivacypath | slog.Lprivacypathregexp)
	if privacy {
		fl |= slog.Lprivacypath
	}
	if re {
		fl |= slog.Lprivacypathregexp
	}
	caseSeq++
	setFlagsVia(fl, caseSeq)
}

// c18build replays the table history on fresh globals and returns the model.
func c18build(ops []c18op) c18tables {
	resetGlobals()
	home, cwd := c18homeCwd()
	t := c18tables{plain: map[string]string{home: "~", cwd: "."}, re: [][2]string{c18regexps[1]}}
	for _, o := range ops {
		c18apply(o)
		t = c18modelApply(t, o, home)
	}
	return t
}

func c18evalOne(cas c18case, t c18tables) *Violation {
	c18setFlags(cas.Privacy, cas.ReFlag)
	if cas.Chdir != "" {
		if old, err := os.Getwd(); err == nil && os.Chdir(cas.Chdir) == nil {
			defer os.Chdir(old)
		}
	}
	cwd, _ := os.Getwd()
	perm := cas.Perm
	slog.VerifPermHook = func(n int) []int {
		if len(perm) == n {
			return perm
		}
		return nil
	}
	defer func() { slog.VerifPermHook = nil }()
	var out string
	var pan string
	in := c18expand(cas.Path)
	switch cas.Via {
	case "SafetyFiles":
		pan = catch(func() {
			// the list starts with files in the directories above the path (and ends with one below it)
			up := filepath.Dir(filepath.Dir(in))
			r := slog.SafetyFiles([]string{"/init.go", filepath.Join(up, "first.go"), in, in, in + "/below.go"})
			if len(r) != 5 || r[2] != r[3] {
				panic(fmt.Sprintf("SafetyFiles returned %q for a list with two equal inputs in the middle", r))
			}
			out = r[2]
		})
	case "record":
		// a record with caller info whose call site is in this very file. The same call site logs
		// once BEFORE the table history is applied (default tables) and once after: what it reported
		// earlier must not stick.
		_, file, _, _ := runtime.Caller(0)
		in = file
		rec := &recorder{}
		slog.VerifPermHook = nil
		resetGlobals()
		var l slog.Logger
		emit := func() { l.Info("m") }
		for round := 0; round < 2; round++ {
			l = slog.New("p").SetWriter(&plainW{"w", rec}).SetJSONMode(true).SetLevel(slog.AlwaysLevel)
			if round == 1 {
				for _, o := range cas.Ops {
					c18apply(o)
				}
				c18setFlags(cas.Privacy, cas.ReFlag)
				slog.VerifPermHook = func(n int) []int {
					if len(perm) == n {
						return perm
					}
					return nil
				}
			}
			slog.AddFlags(slog.Lcaller)
			rec.reset()
			pan = catch(emit)
		}
		if pan == "" {
			if len(rec.events) != 1 {
				pan = fmt.Sprintf("%d writes", len(rec.events))
			} else if obj, err := jsonx.DecodeLine([]byte(rec.events[0].Payload)); err != nil {
				pan = err.Error()
			} else {
				cv, _ := obj.Get("caller")
				co, _ := cv.(*jsonx.Obj)
				if co == nil {
					pan = "no caller object"
				} else {
					f, _ := co.Get("file")
					out, _ = f.(string)
				}
			}
		}
	default:
		pan = catch(func() { out = slog.Safety(in) })
	}
	mk := func(clause, detail string) *Violation {
		var tt []string
		for _, o := range cas.Ops {
			tt = append(tt, o.String())
		}
		sig := fmt.Sprintf("C18|%s|path=%q|tables=%s|privacy=%v regexp=%v|chdir=%s", clause, trunc(c18symbolic(in), 60), c18symbolic(t.key()), cas.Privacy, cas.ReFlag, cas.Chdir)
		return mkViolation(sig, clause, detail+fmt.Sprintf(" [via %s; iteration order %v; tables %s; history %s]", cas.Via, cas.Perm, t.key(), strings.Join(tt, "; ")), cas)
	}
	if pan != "" {
		return mk("never-panics", fmt.Sprintf("%s(%q) failed: %s", cas.Via, in, firstLine(pan)))
	}
	if cl, d := c18oracle(in, out, t, cas.Privacy, cas.ReFlag, cwd); cl != "" {
		return mk(cl, d)
	}
	c18lastOut = out
	return nil
}

var c18lastOut string

func trunc(s string, n int) string {
	if len(s) > n {
		return s[:n] + "..."
	}
	return s
}

func init() {
	register(&CheckDef{ID: "C18", Run: c18run, Replay: func(raw json.RawMessage) *Violation {
		var cas c18case
		if json.Unmarshal(raw, &cas) != nil {
			return nil
		}
		t := c18build(cas.Ops)
		if cas.Via == "tables" && c18tablesReadable() {
			in := c18tables{plain: slog.VerifKnownPathMap(), re: slog.VerifKnownPathRegexps()}
			if in.plain == nil {
				in.plain = map[string]string{}
			}
			if in.key() != t.key() && len(cas.Ops) > 0 {
				o := cas.Ops[len(cas.Ops)-1]
				tp := c18build(cas.Ops[:len(cas.Ops)-1])
				c18build(cas.Ops)
				return mkViolation("C18|table-semantics|"+o.String()+"|from="+c18symbolic(tp.key()), "table-semantics",
					fmt.Sprintf("after %s the tables are %s, reference %s", o.String(), c18symbolic(in.key()), c18symbolic(t.key())), cas)
			}
			return nil
		}
		return c18evalOne(cas, t)
	}})
}

func c18run(c *Ctx) {
	c.Flag("exhaustive", true)
	capN := 4
	if c.Thorough() {
		capN = 6
	}
	if ps := os.Getenv("VERIF_PASS"); ps == "nohome" || ps == "homelink" {
		// the passes whose process was started without a home directory (services, env -i, scratch containers) or with
		// a home directory that is reached through a symbolic link: smaller table cap
		capN -= 1
		c.Info("mapping_table_size_cap_in_the_passes_with_another_HOME", capN)
	} else {
		c.Info("mapping_table_size_cap", capN)
	}
	ops := c18ops()
	home, cwd := c18homeCwd()
	c.Info("home", home)
	type node struct {
		ops []c18op
		t   c18tables
	}
	t0 := c18tables{plain: map[string]string{home: "~", cwd: "."}, re: [][2]string{c18regexps[1]}}
	seen := map[string]bool{t0.key(): true}
	frontier := []node{{nil, t0}}
	all := []node{{nil, t0}}
	beyond := int64(0)
	trans := int64(0)
	for len(frontier) > 0 {
		var next []node
		for _, h := range frontier {
			for _, o := range ops {
				nt := c18modelApply(h.t, o, home)
				trans++
				if len(nt.plain) > capN || len(nt.re) > 2 {
					beyond++
					continue
				}
				k := nt.key()
				if seen[k] {
					continue
				}
				seen[k] = true
				nd := node{append(append([]c18op{}, h.ops...), o), nt}
				next = append(next, nd)
				all = append(all, nd)
			}
		}
		frontier = next
	}
	c.Flag("fixpoint", true)
	if c.Shard == 0 {
		c.Count("states", int64(len(all)))
		c.Count("transitions", trans)
		c.Count("successors_beyond_size_cap", beyond)
	}
	paths := c18paths(home, cwd)
	c.Info("paths", len(paths))
	for si, nd := range all {
		if !c.Mine(si) {
			continue
		}
		if c.Expired() {
			break
		}
		t := c18build(nd.ops)
		// conformance of the table model: the implementation's tables equal the model's (where the tables can be read at all:
		// a tree that stores them in another shape is judged by what Safety / SafetyFiles / the caller field return only)
		implT := t
		if c18tablesReadable() {
			implT = c18tables{plain: slog.VerifKnownPathMap(), re: slog.VerifKnownPathRegexps()}
		} else if si == 0 {
			c.Note("the mapping tables of this tree cannot be read by the harness (another shape): the table-semantics clause is not compared, the lookups are")
		}
		if implT.plain == nil {
			implT.plain = map[string]string{}
		}
		if implT.key() != t.key() {
			c.Violate(mkViolation("C18|table-semantics|"+c18symbolic(t.key()), "table-semantics", fmt.Sprintf("mapping tables are %s, reference %s", implT.key(), t.key()), c18case{Ops: nd.ops}))
			continue
		}
		// every transition out of this state: the tables after the operation equal the model's
		for _, o := range ops {
			hist := append(append([]c18op{}, nd.ops...), o)
			tn := c18build(hist)
			c.Count("transitions_replayed", 1)
			if c18tablesReadable() {
				in := c18tables{plain: slog.VerifKnownPathMap(), re: slog.VerifKnownPathRegexps()}
				if in.plain == nil {
					in.plain = map[string]string{}
				}
				if in.key() != tn.key() {
					c.Violate(mkViolation("C18|table-semantics|"+o.String()+"|from="+c18symbolic(t.key()), "table-semantics",
						fmt.Sprintf("after %s on tables %s the tables are %s, reference %s", o.String(), c18symbolic(t.key()), c18symbolic(in.key()), c18symbolic(tn.key())), c18case{Ops: hist, Via: "tables"}))
					continue
				}
			}
			if tn.key() == t.key() {
				// an operation that leaves the model where it is (removing what is not there, a pattern that does not compile, Reset())
				// is no state of its own in the exploration: the lookups are asked right here, after the operation
				for _, p := range c18selfLoopPaths {
					cas := c18case{Ops: hist, Privacy: true, ReFlag: true, Path: p, Via: "Safety"}
					c.Count("evaluations", 1)
					if v := c18evalOne(cas, tn); v != nil {
						c.Violate(v)
						break
					}
				}
			}
		}
		t = c18build(nd.ops)
		perms := permutations(len(t.plain))
		for _, privacy := range []bool{true, false} {
			for _, re := range []bool{true, false} {
				for pi, p := range paths {
					for pj, perm := range perms {
						via := "Safety"
						if pi%5 == 4 {
							via = "SafetyFiles"
						}
						cas := c18case{Ops: nd.ops, Privacy: privacy, ReFlag: re, Path: p, Perm: perm, Via: via}
						c.Count("evaluations", 1)
						if v := c18evalOne(cas, t); v != nil {
							c.Violate(v)
						} else {
							c.Outcome(p + "=>" + c18lastOut)
						}
						if pj == 0 && (si%8 == 0 || c.Thorough()) {
							// the same after the process changed its working directory (to /, and to the temp directory)
							for _, dir := range []string{"/", os.TempDir()} {
								cas.Chdir = dir
								c.Count("evaluations", 1)
								if v := c18evalOne(cas, t); v != nil {
									c.Violate(v)
								}
							}
						}
					}
				}
				// the caller field of a real record (call site under /verif)
				for _, perm := range perms {
					cas := c18case{Ops: nd.ops, Privacy: privacy, ReFlag: re, Perm: perm, Via: "record"}
					c.Count("evaluations", 1)
					if v := c18evalOne(cas, t); v != nil {
						c.Violate(v)
					}
				}
			}
		}
		if si == len(all)/2 {
			var tt []string
			for _, o := range nd.ops {
				tt = append(tt, o.String())
			}
			c.Sample(map[string]any{"history": tt, "tables": t.key(), "iteration_orders": len(perms)})
		}
	}
	c.Assume("regexp mappings protect the text they match at the start of a path, and only while both privacy flags are on")
	c.Assume("mapping keys are directories: 'under a mapping' means equal to the key or continuing with '/'")
}
