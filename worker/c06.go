package main

// C06 - colored console mode: faithful layout and no colour bleeding.
// Shape I; oracles: SGR terminal-state simulator on the raw payload (hygiene)
// and a layout parser on the escape-stripped text.

import (
	"encoding/json"
	"fmt"
	"strconv"
	"strings"
	"unicode/utf8"

	"github.com/hedzr/is/term/color"
	"github.com/hedzr/logg/slog"

	"verif/oracle/logfmt"
	"verif/oracle/sgr"
)

const (
	c06Colored   = slog.Level(40) // registered with colours
	c06Plain     = slog.Level(41) // registered without colours
	c06Unknown   = slog.Level(77) // never registered
	c06ColoredBg = slog.Level(42) // registered with fg + bg
	c06BgOnly    = slog.Level(43) // colours given with SetLevelColors: no foreground, an attribute (underline) only
	c06SetFgBg   = slog.Level(44) // colours given with SetLevelColors: foreground and background
	c06Partial   = slog.Level(45) // registered with a short tag for width 3 only
)

func c06setupWorld() {
	resetGlobals()
	_ = slog.RegisterLevel(c06Colored, "notice40", slog.RegWithColor(color.FgGreen), slog.RegWithTreatedAsLevel(slog.InfoLevel))
	_ = slog.RegisterLevel(c06Plain, "plain41", slog.RegWithTreatedAsLevel(slog.InfoLevel))
	_ = slog.RegisterLevel(c06ColoredBg, "hint42", slog.RegWithColor(color.FgYellow, color.BgUnderline),
		slog.RegWithShortTags([6]string{"", "H", "HT", "HNT", "HINT", "HINTS"}), slog.RegWithTreatedAsLevel(slog.InfoLevel))
	_ = slog.RegisterLevel(c06BgOnly, "under43", slog.RegWithTreatedAsLevel(slog.InfoLevel))
	slog.SetLevelColors(c06BgOnly, color.NoColor, color.BgUnderline)
	_ = slog.RegisterLevel(c06SetFgBg, "alert44", slog.RegWithTreatedAsLevel(slog.WarnLevel))
	slog.SetLevelColors(c06SetFgBg, color.FgLightRed, color.BgBlink)
	_ = slog.RegisterLevel(c06Partial, "audit45", slog.RegWithShortTags([6]string{3: "AUD"}), slog.RegWithTreatedAsLevel(slog.InfoLevel))
}

func hasCtl(s string, allowLF bool) bool {
	for i := 0; i < len(s); i++ {
		c := s[i]
		if c == '\n' && allowLF {
			continue
		}
		if c < 0x20 || c == 0x7f {
			return true
		}
	}
	return false
}

func checkColorRecord(rc recCase, payloads []string, pan string) (clause, detail string) {
	if pan != "" {
		return "call-returns", "the call panicked: " + firstLine(pan)
	}
	if len(payloads) != 1 {
		return "one-write", fmt.Sprintf("%d Write calls for one record", len(payloads))
	}
	p := payloads[0]
	msg := rc.msg()
	if slog.Level(rc.Level) == slog.AlwaysLevel && strings.Trim(msg, "\n\r \t") == "" {
		// a blank Print is delivered as exactly one newline byte (C02)
		if p != "\n" {
			return "blank-print", fmt.Sprintf("blank Print delivered %q", p)
		}
		return "", ""
	}
	rep := sgr.Scan([]byte(p))
	// ---- hygiene (for messages that contain no escape byte themselves)
	// under go test / a debugger a multi-line error dump follows the record; only
	// that dump may keep one (foreground) colour across its own lines.
	dumpMode := false
	if slog.VerifInTesting() || slog.VerifIsDebug() {
		var fl []flatAttr
		flattenAttrs(rc.Attrs, "", &fl)
		for _, a := range fl {
			if vs := valSpecByName(a.node.V); vs != nil && vs.Kind == "error" {
				dumpMode = true
			}
		}
	}
	normalBreaks := len(rep.AtNewline)
	if dumpMode {
		mm := msg
		if strings.HasSuffix(mm, "\n") {
			mm = strings.TrimRight(mm, "\n\r")
			normalBreaks = strings.Count(mm, "\n") + 1
			if strings.Count(mm, "\n") == 0 {
				normalBreaks = 0
			}
		} else {
			normalBreaks = strings.Count(mm, "\n")
		}
		normalBreaks++ // the break that starts the dump
	}
	if !strings.Contains(msg, "\x1b") {
		for i, st := range rep.AtNewline {
			if dumpMode && i >= normalBreaks && i < len(rep.AtNewline)-1 {
				only := st
				only.Fg = 0
				if only.Clean() {
					continue // the dump's own colour
				}
			}
			if !st.Clean() {
				return "colour-off-at-line-break", fmt.Sprintf("colour state %s still active at line break %d; payload %.300q", st, i+1, p)
			}
		}
		if !rep.AtEnd.Clean() {
			return "colour-off-at-end", fmt.Sprintf("colour state %s still active at the end of the record; payload %.300q", rep.AtEnd, p)
		}
		if len(rep.BadEscapes) > 0 {
			return "no-raw-escape", fmt.Sprintf("escape byte outside a well-formed SGR sequence (%s); payload %.300q", rep.BadEscapes[0], p)
		}
		if !hasCtl(msg, true) && len(rep.Controls) > 0 {
			return "no-raw-control", fmt.Sprintf("raw control byte at offset %d of the text although the message has none; payload %.300q", rep.Controls[0], p)
		}
	}
	// ---- layout (claimed for messages without markup and without control characters other than LF)
	if strings.ContainsAny(msg, "<>&\x1b") || hasCtl(msg, true) || !utf8.ValidString(msg) {
		return "", ""
	}
	text := rep.Text
	if !strings.HasSuffix(text, "\n") {
		return "layout/ends-with-newline", fmt.Sprintf("record does not end with a newline: %.200q", text)
	}
	// split message
	m := msg
	eol := strings.HasSuffix(m, "\n")
	if eol {
		m = strings.TrimRight(m, "\n")
	}
	first, restLines := m, []string(nil)
	if i := strings.IndexByte(m, '\n'); i >= 0 {
		first = m[:i]
		restLines = strings.Split(m[i+1:], "\n")
	}
	body := text[:len(text)-1]
	head := body
	var tail []string
	if i := strings.IndexByte(body, '\n'); i >= 0 {
		head = body[:i]
		tail = strings.Split(body[i+1:], "\n")
	}
	pos := 0
	eat := func(s string) bool {
		if strings.HasPrefix(head[pos:], s) {
			pos += len(s)
			return true
		}
		return false
	}
	wantTime := fixedTime.Format(refDefaultLayout()) + "| "
	if !eat(wantTime) {
		return "layout/timestamp", fmt.Sprintf("record does not start with %q: %.120q", wantTime, head)
	}
	if rc.Named && !eat(rc.loggerName()+" ") {
		return "layout/logger-name", fmt.Sprintf("logger name %q does not follow the timestamp: %.120q", rc.loggerName(), head)
	}
	w := slog.VerifLevelOutputWidth()
	if rc.LOW > 0 {
		w = rc.LOW
	}
	if !eat("[") {
		return "layout/level-tag", fmt.Sprintf("no '[' where the level tag should be: %.120q", head[pos:])
	}
	end := strings.IndexByte(head[pos:], ']')
	if end < 0 {
		return "layout/level-tag", "no closing ']' of the level tag"
	}
	tag := head[pos : pos+end]
	if len(tag) != w && utf8.RuneCountInString(tag) != w {
		return "layout/level-tag", fmt.Sprintf("level tag %q is not %d characters wide", tag, w)
	}
	pos += end + 1
	if !eat(" ") {
		return "layout/level-tag", "no space after the level tag"
	}
	if !eat(first) {
		return "layout/first-line", fmt.Sprintf("first message line %q does not follow the level tag: %.120q", first, head[pos:])
	}
	// padding to the minimal width (byte or rune count accepted)
	mmw := slog.VerifMinimalMessageWidth()
	if rc.MMW > 0 {
		mmw = rc.MMW
	}
	spaces := 0
	for pos+spaces < len(head) && head[pos+spaces] == ' ' {
		spaces++
	}
	var want []flatAttr
	flattenAttrs(rc.Attrs, "", &want)
	// ascending key order with last-wins de-duplication is C07's business; here keys are distinct. Sort.
	sortFlat(want)
	padB, padR := mmw-len(first), mmw-utf8.RuneCountInString(first)
	if padB < 0 {
		padB = 0
	}
	if padR < 0 {
		padR = 0
	}
	more := len(want) > 0 || rc.Caller
	sep := 0
	if more {
		sep = 1
	}
	if spaces != padB+sep && spaces != padR+sep {
		return "layout/padding", fmt.Sprintf("first line %q (minimal width %d) is followed by %d spaces, expected %d (+%d separator): %.160q", first, mmw, spaces, padB, sep, head)
	}
	pos += spaces
	if more {
		pos-- // leave the separator for the attribute loop
	}
	// attributes
	for i, a := range want {
		marker := " " + a.key + "="
		if !eat(marker) {
			return "layout/attributes", fmt.Sprintf("attribute %d: expected %q at %.80q (record %.300q)", i, marker, head[pos:], head)
		}
		// the value extends to the next attribute marker / caller / end
		endv := len(head)
		if i+1 < len(want) {
			nm := " " + want[i+1].key + "="
			j := strings.Index(head[pos:], nm)
			if j < 0 {
				return "layout/attributes", fmt.Sprintf("attribute %q not found after %q (ascending key order expected): %.300q", want[i+1].key, a.key, head)
			}
			endv = pos + j
		} else if rc.Caller {
			j := strings.LastIndex(head, " ")             // function
			k := strings.LastIndex(head[:max(j, 0)], " ") // file:line
			if j < 0 || k < pos {
				return "layout/caller", fmt.Sprintf("no caller after the attributes: %.300q", head)
			}
			endv = k
		}
		val := head[pos:endv]
		pos = endv
		pr := logfmt.Pair{Key: a.key, Raw: val, Val: val}
		if len(val) >= 2 && val[0] == '"' {
			if u, err := strconv.Unquote(val); err == nil {
				pr.Val, pr.Quoted = u, true
			}
		}
		vs := valSpecByName(a.node.V)
		if vs.Kind == "error" || vs.Kind == "fallback" {
			continue // error text is coloured/quoted, the fallback is free-form: presence only
		}
		if a.key == "time" && vs.Kind == "time" {
			continue // an attribute named like the timestamp field is printed with the record's time layout: presence only
		}
		if r := vs.Logfmt(pr); r != "" {
			return "layout/attr-value", fmt.Sprintf("attribute %q (%s): %s; record %.300q", a.key, a.node.V, r, head)
		}
	}
	if rc.Caller {
		restHead := head[pos:]
		// " file:line func"
		if !strings.HasPrefix(restHead, " ") {
			return "layout/caller", fmt.Sprintf("caller does not follow: %.120q", restHead)
		}
		f := strings.Fields(restHead)
		if len(f) != 2 || !strings.Contains(f[0], ":") {
			return "layout/caller", fmt.Sprintf("caller is not `file:line function`: %.120q", restHead)
		}
		if _, err := strconv.Atoi(f[0][strings.LastIndex(f[0], ":")+1:]); err != nil {
			return "layout/caller", fmt.Sprintf("caller line is not a number: %.120q", restHead)
		}
	} else if strings.TrimRight(head[pos:], " ") != "" {
		return "layout/trailing", fmt.Sprintf("unexpected text after the attributes: %.120q", head[pos:])
	}
	// remaining message lines, each indented by four spaces
	if eol && len(restLines) > 0 && len(tail) == len(restLines)+1 && tail[len(tail)-1] == "" {
		tail = tail[:len(tail)-1] // one extra line break for a message that ended with one
	}
	if dumpMode && len(tail) > len(restLines) {
		tail = tail[:len(restLines)] // the error dump follows; its shape is not part of the layout claim
	}
	if len(tail) != len(restLines) {
		return "layout/rest-lines", fmt.Sprintf("%d continuation lines printed, message has %d: %.300q", len(tail), len(restLines), text)
	}
	for i, l := range restLines {
		if tail[i] != "    "+l {
			return "layout/rest-lines", fmt.Sprintf("continuation line %d is %q, expected %q", i+1, tail[i], "    "+l)
		}
	}
	return "", ""
}

func sortFlat(a []flatAttr) {
	for i := 1; i < len(a); i++ {
		for j := i; j > 0 && a[j].key < a[j-1].key; j-- {
			a[j], a[j-1] = a[j-1], a[j]
		}
	}
}

func c06eval(rc recCase) *Violation {
	payloads, pan := emitRecord(rc)
	clause, detail := checkColorRecord(rc, payloads, pan)
	if clause == "" {
		return nil
	}
	return mkViolation("", clause, detail, rc)
}

var c06msgs = []string{"m", "short message", strings.Repeat("x", 36), strings.Repeat("x", 37), strings.Repeat("y", 16), strings.Repeat("y", 60),
	"  leading", "trailing  ", "in  ner", "", " ", "h\xc3\xa9llo w\xc3\xb6rld \xe4\xb8\x96\xe7\x95\x8c", "l1\nl2", "l1\nl2\nl3", "l1\n\nl3", "\nl2", "l1\n", "l1\nl2\n", "l1\n\n",
	"a <b>bold</b> word", "<b>unbalanced", "a & b < c > d", "<font color=\"red\">x</font>", "tab\there", "bell\a", "cr\rhere", "nul\x00", "emoji \U0001F600 end",
	// markup in the continuation lines (exactly one continuation line, several, a tag that spans a line break)
	"l1\na <b>bold</b> second line", "l1\nl2 <font color=\"red\">x</font>\nl3 <u>u</u>", "<b>first\nsecond</b>", "l1\n<i>unbalanced"}

func c06cases(thorough bool, emit func(rc recCase)) {
	base := recCase{Format: "color", MsgQ: qk("m"), Level: int(slog.InfoLevel)}
	sevs := []slog.Level{slog.PanicLevel, slog.FatalLevel, slog.ErrorLevel, slog.WarnLevel, slog.InfoLevel, slog.DebugLevel, slog.TraceLevel,
		slog.AlwaysLevel, slog.OKLevel, slog.SuccessLevel, slog.FailLevel, c06Colored, c06Plain, c06ColoredBg, c06Unknown, c06BgOnly, c06SetFgBg, c06Partial}
	// A: severity x widths x messages
	for _, sev := range sevs {
		for low := 1; low <= 5; low++ {
			for _, mmw := range []int{16, 36, 60} {
				for mi, m := range c06msgs {
					if !thorough && low != 3 && mmw != 36 && mi%3 != 0 {
						continue
					}
					rc := base
					rc.Layer = "A-sev-width-msg"
					rc.Level, rc.LOW, rc.MMW, rc.MsgQ = int(sev), low, mmw, qk(m)
					rc.Named = (mi+low)%2 == 0
					rc.Caller = (mi+mmw/4)%3 == 0 // the caller is printed for every severity, whatever its ordinal
					emit(rc)
				}
			}
		}
	}
	// B: messages x attribute lists x caller x named
	var lists [][]attrNode
	pv := plainVals()
	for _, v := range pv {
		lists = append(lists, []attrNode{leaf("k", v.Name)})
	}
	lists = append(lists,
		[]attrNode{leaf("a", "int:-1"), leaf("b", "string:space"), leaf("c", "bool:true")},
		[]attrNode{leaf("c", "int:-1"), leaf("a", "string:quote"), leaf("b", "error:plain")},
		[]attrNode{group("g", leaf("x", "int:-1"), leaf("y", "string:plain"))},
		[]attrNode{leaf("a", "int:-1"), group("g", leaf("x", "int:-1"), group("h", leaf("z", "bool:true"))), leaf("z", "string:plain")},
		[]attrNode{group("g"), leaf("k", "int:-1")},
		[]attrNode{leaf("e", "error:nasty-text"), leaf("s", "string:esc")},
		[]attrNode{leaf("e", "error:v3-with-stack")},
		[]attrNode{leaf("b", "bytes:esc"), leaf("s", "struct")},
		[]attrNode{leaf("a", "int:-1"), leaf("time", "time:utc-ns")},            // an attribute named like the timestamp field, last in key order
		[]attrNode{leaf("time", "time:+05:30"), leaf("z", "string:plain")},       // ... and in the middle
		[]attrNode{group("g", leaf("time", "time:utc-ns")), leaf("level", "int:-1")}, // ... inside a group
		nil,
	)
	for _, m := range c06msgs {
		for _, l := range lists {
			for _, caller := range []bool{false, true} {
				for _, named := range []bool{false, true} {
					rc := base
					rc.Layer = "B-msg-attrs"
					rc.MsgQ, rc.Attrs, rc.Caller, rc.Named = qk(m), cloneNodes(l), caller, named
					emit(rc)
				}
			}
		}
	}
	// C: every value representative x a few severities
	for i := range valSpecs {
		for _, sev := range []slog.Level{slog.InfoLevel, slog.ErrorLevel, c06Plain, c06Unknown, slog.TraceLevel, c06BgOnly} {
			rc := base
			rc.Layer = "C-values"
			rc.Level = int(sev)
			rc.Attrs = []attrNode{leaf("k", valSpecs[i].Name)}
			emit(rc)
		}
	}
	// D: the generic layers (message bytes, lists, group shapes)
	fmtCases("color", []string{"k", "a.b", "a_b"}, thorough, func(rc recCase) {
		rc.Layer = "D-" + rc.Layer
		emit(rc)
	})
}

func init() {
	register(&CheckDef{ID: "C06", Run: c06run, Replay: func(raw json.RawMessage) *Violation {
		var rc recCase
		if json.Unmarshal(raw, &rc) != nil {
			return nil
		}
		c06setupWorld()
		return fmtEvalMin("C06", rc, c06eval)
	}})
}

func c06run(c *Ctx) {
	c.Flag("exhaustive", true)
	c06setupWorld()
	testMode := slog.VerifInTesting()
	n := 0
	layers := map[string]int64{}
	c06cases(c.Thorough(), func(rc recCase) {
		n++
		if !c.Mine(n) {
			return
		}
		c.Count("evaluations", 1)
		if testMode {
			c.Count("evaluations_in_test_mode_process", 1)
		}
		layers[rc.Layer]++
		v := fmtEvalMin("C06", rc, c06eval)
		if v != nil {
			c.Violate(v)
			return
		}
		c.Count("distinct_nontrivial", 1)
		c.Outcome(strings.Join(lastPayloads, "|"))
		if n%1499 == 0 {
			c.Sample(rc)
		}
	})
	for k, v := range layers {
		c.Count("layer_"+k, v)
	}
}
