package main

// C05 - logfmt mode: one line of key=value pairs that parses back to what was
// logged. Same layered product as C04 with legal logfmt keys; the oracle is the
// independent tokenizer in oracle/logfmt plus strconv.Unquote.

import (
	"encoding/json"
	"fmt"
	"strings"
	"time"

	"github.com/hedzr/logg/slog"

	"verif/oracle/logfmt"
)

var c05keys = []string{"k", "a.b", "é", strings.Repeat("K", 64), "a_b-c", "a/b:c", "0"}

type flatAttr struct {
	key  string
	node attrNode
}

func flattenAttrs(ns []attrNode, prefix string, out *[]flatAttr) {
	for _, n := range ns {
		k := n.key()
		if prefix != "" {
			k = prefix + "." + k
		}
		if n.IsG {
			flattenAttrs(n.G, k, out)
			continue
		}
		*out = append(*out, flatAttr{k, n})
	}
}

func checkLogfmtRecord(rc recCase, payloads []string, pan string) (clause, detail string) {
	if pan != "" {
		return "call-returns", "the call panicked: " + firstLine(pan)
	}
	if len(payloads) != 1 {
		return "one-write", fmt.Sprintf("%d Write calls for one record", len(payloads))
	}
	p := payloads[0]
	pairs, err := logfmt.ParseLine([]byte(p))
	if err != nil {
		kind := err.Error()
		for _, cut := range []string{" at byte", " for key", " of ", ":", " after"} {
			if i := strings.Index(kind, cut); i > 0 {
				kind = kind[:i]
			}
		}
		return "one-parsable-line/" + strings.ReplaceAll(kind, " ", "-"), fmt.Sprintf("%v; payload %.300q", err, p)
	}
	i := 0
	next := func(key string) (logfmt.Pair, bool) {
		if i < len(pairs) && pairs[i].Key == key {
			i++
			return pairs[i-1], true
		}
		return logfmt.Pair{}, false
	}
	tp, ok := next("time")
	if !ok {
		return "field-order", fmt.Sprintf("first pair is not time=; payload %.200q", p)
	}
	if _, err := time.Parse(refDefaultLayout(), tp.Val); err != nil || !tp.Quoted {
		return "time-field", fmt.Sprintf("time %q does not parse with layout %q (or is not quoted)", tp.Raw, refDefaultLayout())
	}
	if rc.Named {
		lp, ok := next("logger")
		if !ok || lp.Val != rc.loggerName() && lp.Val != toValid(rc.loggerName()) && lp.Val != toValidPerByte(rc.loggerName()) {
			return "field-order", fmt.Sprintf("second pair is not logger=%q; payload %.200q", rc.loggerName(), p)
		}
	}
	lp, ok := next("level")
	if !ok || lp.Val != slog.Level(rc.Level).String() {
		return "field-order", fmt.Sprintf("level pair missing or wrong (%q); payload %.200q", lp.Raw, p)
	}
	mp, ok := next("msg")
	if !ok {
		return "field-order", fmt.Sprintf("msg pair missing after level; payload %.200q", p)
	}
	if !mp.Quoted {
		return "msg-field", "the message is not quoted"
	}
	if mp.Val != rc.msg() {
		return "msg-field", fmt.Sprintf("message not preserved: parsed %q, logged %q", mp.Val, rc.msg())
	}
	rest := pairs[i:]
	if rc.Caller {
		if len(rest) < 3 || rest[len(rest)-3].Key != "caller.file" || rest[len(rest)-2].Key != "caller.line" || rest[len(rest)-1].Key != "caller.function" {
			return "caller-fields", fmt.Sprintf("caller.file/line/function are not the last three pairs; payload %.300q", p)
		}
		rest = rest[:len(rest)-3]
	}
	var want []flatAttr
	flattenAttrs(rc.Attrs, "", &want)
	got := map[string]logfmt.Pair{}
	for _, pr := range rest {
		if _, dup := got[pr.Key]; dup {
			return "attr-pairs", fmt.Sprintf("key %q appears twice; payload %.300q", pr.Key, p)
		}
		got[pr.Key] = pr
	}
	seen := map[string]bool{}
	for _, w := range want {
		pr, ok := got[w.key]
		if !ok {
			return "attr-pairs", fmt.Sprintf("attribute %q (%s) has no pair of its own; payload %.300q", w.key, w.node.V, p)
		}
		seen[w.key] = true
		vs := valSpecByName(w.node.V)
		if r := vs.Logfmt(pr); r != "" {
			return "attr-value", fmt.Sprintf("attribute %q (%s): %s; payload %.300q", w.key, w.node.V, r, p)
		}
	}
	for k := range got {
		if !seen[k] {
			return "attr-pairs", fmt.Sprintf("unexpected pair %q; payload %.300q", k, p)
		}
	}
	return "", ""
}

func c05eval(rc recCase) *Violation {
	payloads, pan := emitRecord(rc)
	clause, detail := checkLogfmtRecord(rc, payloads, pan)
	if clause == "" {
		return nil
	}
	return mkViolation("", clause, detail, rc)
}

func init() {
	register(&CheckDef{ID: "C05", Run: func(c *Ctx) {
		if slog.VerifInTesting() || slog.VerifIsDebug() {
			c.Note("worker is not a production-mode process; C05 is stated for production mode")
		}
		fmtRun(c, "C05", "logfmt", c05keys, c05eval)
	}, Replay: func(raw json.RawMessage) *Violation { return fmtReplay("C05", raw, c05eval) }})
}
