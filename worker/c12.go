package main

// C12 - Panic and Fatal: record first, then the documented termination. Shape I
// over a configuration matrix, one child process per terminating case (the
// worker re-executes itself in single-case mode; test mode = argv[0] "*.test"
// plus a -test.v argument, which is exactly what the library looks at).

import (
	"context"
	"encoding/json"
	"errors"
	"fmt"
	"io"
	logslog "log/slog"
	"os"
	"os/exec"
	"path/filepath"
	"strings"
	"time"

	"github.com/hedzr/logg/slog"
)

type c12case struct {
	Entry    string `json:"entry"`
	Sev      int    `json:"severity"`
	NoInt    bool   `json:"no_interrupt_flag"`
	IntAlw   bool   `json:"interrupt_always_flag"`
	TestMode bool   `json:"test_mode_process"`
	Level    int    `json:"logger_level"`
	Format   string `json:"format"`
	Batch    bool   `json:"batch_of_non_terminating,omitempty"`
	NArgs    int    `json:"n_args"`           // 0, 2 or 4 free-form arguments
	Extra    string `json:"extra_flags"`      // "", "LattrsR", "Lcaller"
	LevelVia string `json:"level_via,omitempty"` // "" SetLevel on the logger | "option" the logger is created with New(name, WithLevel(L)) and never given SetLevel
	Repeat   int    `json:"repeat,omitempty"` // Panic only: the call is issued this many times in the same process (each panic recovered); the LAST outcome is reported
	FlagPath string `json:"flag_path"`        // "" = SetFlags; "scope" = the flags were toggled inside a SaveFlagsAndMod scope that has ended
}

var c12argsN = 2

func c12args() []any {
	switch c12argsN {
	case 0:
		return nil
	case 4:
		return []any{"k", 1, "s", "two words"}
	case -1: // ready-made Attr values only
		return []any{slog.NewAttr("k", 1), slog.NewAttr("s", "two words")}
	case -2: // one Attrs value
		return []any{slog.Attrs{slog.NewAttr("k", 1)}}
	case -3: // one Attrs value with 200 members (more than the pooled attribute slice holds)
		as := make(slog.Attrs, 0, 200)
		for i := 0; i < 200; i++ {
			as = append(as, slog.NewAttr(fmt.Sprintf("k%03d", i), i))
		}
		return []any{as}
	}
	return []any{"k", 1}
}

const c12msg = "fatal-or-panic message"

// c12msgFor: the message of the case ("msg-eol": it ends with a line break - the panic value is the message as given).
func c12msgFor(cas c12case) string {
	if cas.Extra == "msg-eol" {
		return c12msg + "\n"
	}
	return c12msg
}

type c12entry struct {
	name    string
	generic bool // severity given as argument
	pkg     bool
	call    func(l slog.Logger, sev slog.Level, msg string)
}

// c12ctx is the context the context-taking entry points are given (nil in the "nilctx-ctxkeys" variant).
var c12ctx = context.Background()

type c12failW struct{}

func (c12failW) Write(p []byte) (int, error) { return 0, errors.New("disk full") }

func c12entries() []c12entry {
	ctx := c12ctx
	return []c12entry{
		{"verb", false, false, func(l slog.Logger, sev slog.Level, m string) { c12verb(l, sev, m) }},
		{"Context verb", false, false, func(l slog.Logger, sev slog.Level, m string) { c12ctxverb(l, ctx, sev, m) }},
		{"LogAttrs", true, false, func(l slog.Logger, sev slog.Level, m string) { l.LogAttrs(ctx, sev, m, c12args()...) }},
		{"Logit", true, false, func(l slog.Logger, sev slog.Level, m string) { l.Logit(ctx, sev, m, c12args()...) }},
		{"Log(log/slog level)", true, false, func(l slog.Logger, sev slog.Level, m string) {
			ll, ok := logslogLevelFor(sev)
			if !ok {
				ll = logslog.LevelInfo
			}
			l.Log(ctx, ll, m, c12args()...)
		}},
		{"package verb", false, true, func(l slog.Logger, sev slog.Level, m string) { c12pkgverb(sev, m) }},
		{"package Context verb", false, true, func(l slog.Logger, sev slog.Level, m string) { c12pkgctxverb(ctx, sev, m) }},
	}
}

func c12verb(l slog.Logger, sev slog.Level, m string) {
	switch sev {
	case slog.PanicLevel:
		l.Panic(m, c12args()...)
	case slog.FatalLevel:
		l.Fatal(m, c12args()...)
	case slog.ErrorLevel:
		l.Error(m, c12args()...)
	case slog.WarnLevel:
		l.Warn(m, c12args()...)
	case slog.InfoLevel:
		l.Info(m, c12args()...)
	case slog.DebugLevel:
		l.Debug(m, c12args()...)
	case slog.TraceLevel:
		l.Trace(m, c12args()...)
	case slog.AlwaysLevel:
		l.Print(m, c12args()...)
	case slog.OKLevel:
		l.OK(m, c12args()...)
	case slog.SuccessLevel:
		l.Success(m, c12args()...)
	case slog.FailLevel:
		l.Fail(m, c12args()...)
	}
}

func c12ctxverb(l slog.Logger, ctx context.Context, sev slog.Level, m string) {
	switch sev {
	case slog.PanicLevel:
		l.PanicContext(ctx, m, c12args()...)
	case slog.FatalLevel:
		l.FatalContext(ctx, m, c12args()...)
	case slog.ErrorLevel:
		l.ErrorContext(ctx, m, c12args()...)
	case slog.WarnLevel:
		l.WarnContext(ctx, m, c12args()...)
	case slog.InfoLevel:
		l.InfoContext(ctx, m, c12args()...)
	case slog.DebugLevel:
		l.DebugContext(ctx, m, c12args()...)
	case slog.TraceLevel:
		l.TraceContext(ctx, m, c12args()...)
	case slog.AlwaysLevel:
		l.PrintContext(ctx, m, c12args()...)
	case slog.OKLevel:
		l.OKContext(ctx, m, c12args()...)
	case slog.SuccessLevel:
		l.SuccessContext(ctx, m, c12args()...)
	case slog.FailLevel:
		l.FailContext(ctx, m, c12args()...)
	}
}

func c12pkgverb(sev slog.Level, m string) {
	switch sev {
	case slog.PanicLevel:
		slog.Panic(m, c12args()...)
	case slog.FatalLevel:
		slog.Fatal(m, c12args()...)
	case slog.ErrorLevel:
		slog.Error(m, c12args()...)
	case slog.WarnLevel:
		slog.Warn(m, c12args()...)
	case slog.InfoLevel:
		slog.Info(m, c12args()...)
	case slog.DebugLevel:
		slog.Debug(m, c12args()...)
	case slog.TraceLevel:
		slog.Trace(m, c12args()...)
	case slog.AlwaysLevel:
		slog.Print(m, c12args()...)
	case slog.OKLevel:
		slog.OK(m, c12args()...)
	case slog.SuccessLevel:
		slog.Success(m, c12args()...)
	case slog.FailLevel:
		slog.Fail(m, c12args()...)
	}
}

func c12pkgctxverb(ctx context.Context, sev slog.Level, m string) {
	switch sev {
	case slog.PanicLevel:
		slog.PanicContext(ctx, m, c12args()...)
	case slog.FatalLevel:
		slog.FatalContext(ctx, m, c12args()...)
	case slog.ErrorLevel:
		slog.ErrorContext(ctx, m, c12args()...)
	case slog.WarnLevel:
		slog.WarnContext(ctx, m, c12args()...)
	case slog.InfoLevel:
		slog.InfoContext(ctx, m, c12args()...)
	case slog.DebugLevel:
		slog.DebugContext(ctx, m, c12args()...)
	case slog.TraceLevel:
		slog.TraceContext(ctx, m, c12args()...)
	case slog.AlwaysLevel:
		slog.PrintContext(ctx, m, c12args()...)
	case slog.OKLevel:
		slog.OKContext(ctx, m, c12args()...)
	case slog.SuccessLevel:
		slog.SuccessContext(ctx, m, c12args()...)
	case slog.FailLevel:
		slog.FailContext(ctx, m, c12args()...)
	}
}

var c12nonTerminating = []slog.Level{slog.ErrorLevel, slog.WarnLevel, slog.InfoLevel, slog.DebugLevel, slog.TraceLevel, slog.AlwaysLevel, slog.OKLevel, slog.SuccessLevel, slog.FailLevel}

// ---- child side

func c12setup(cas c12case, recFile string) (slog.Logger, *os.File) {
	fl := slog.GetFlags() &^ (slog.LnoInterrupt | slog.Linterruptalways | slog.Lcaller)
	if cas.NoInt {
		fl |= slog.LnoInterrupt
	}
	if cas.IntAlw {
		fl |= slog.Linterruptalways
	}
	switch cas.Extra {
	case "LattrsR":
		fl |= slog.LattrsR
	case "Lcaller":
		fl |= slog.Lcaller
	}
	slog.SetFlags(fl)
	if cas.FlagPath == "scope" {
		// a scope that flips both interrupt flags, and ends before the call
		var add, remove slog.Flags
		if cas.NoInt {
			remove |= slog.LnoInterrupt
		} else {
			add |= slog.LnoInterrupt
		}
		if cas.IntAlw {
			remove |= slog.Linterruptalways
		} else {
			add |= slog.Linterruptalways
		}
		restore := slog.SaveFlagsAndMod(add, remove)
		restore()
	}
	c12argsN = cas.NArgs
	f, err := os.OpenFile(recFile, os.O_CREATE|os.O_WRONLY|os.O_APPEND, 0o644)
	if err != nil {
		fmt.Println("INFRA cannot open record file:", err)
		os.Exit(97)
	}
	var dest io.Writer = f
	if cas.NArgs == 2 && cas.Repeat <= 1 {
		// a third of the cases log to the library's own file writer
		dest = slog.NewFileWriter(recFile)
	}
	if cas.Extra == "nilctx-ctxkeys" {
		c12ctx = nil
	}
	if cas.Extra == "discard-destinations" {
		// a silenced logger (--quiet): every destination is io.Discard; the record is unobservable, the termination is not
		dest = io.Discard
	}
	mk := func(l slog.Logger) slog.Logger {
		l.SetWriter(dest).SetErrorWriter(dest)
		switch cas.Extra {
		case "nilctx-ctxkeys":
			// a logger with registered context keys is handed a nil context
			l.SetContextKeys("ck1", "ck2")
		case "failing-writer":
			// a second destination of each class fails every Write: the call still terminates, the healthy one has the record
			l.AddWriter(c12failW{}).AddErrorWriter(c12failW{})
		}
		if !(cas.LevelVia == "option" && l != slog.Default()) {
			l.SetLevel(slog.Level(cas.Level)) // (Debug/Trace switch the process-wide modes on - deliberately left on)
		}
		switch cas.Format {
		case "json":
			l.SetJSONMode(true)
		case "logfmt":
			l.SetColorMode(false)
		default:
			l.SetColorMode(true)
		}
		return l
	}
	mk(slog.Default())
	if cas.LevelVia == "option" {
		return mk(slog.New("c12", slog.WithLevel(slog.Level(cas.Level)))), f
	}
	return mk(slog.New("c12")), f
}

func init() {
	subs["c12"] = func(args []string) {
		var cas c12case
		if len(args) < 2 || json.Unmarshal([]byte(args[0]), &cas) != nil {
			fmt.Println("INFRA bad arguments")
			os.Exit(98)
		}
		if slog.VerifInTesting() != cas.TestMode {
			fmt.Printf("INFRA process mode mismatch: inTesting=%v wanted %v\n", slog.VerifInTesting(), cas.TestMode)
			os.Exit(96)
		}
		l, _ := c12setup(cas, args[1])
		var ent *c12entry
		ents := c12entries()
		for i := range ents {
			if ents[i].name == cas.Entry {
				ent = &ents[i]
			}
		}
		defer func() {
			if r := recover(); r != nil {
				fmt.Printf("PANIC:%q\n", fmt.Sprint(r))
				os.Exit(0)
			}
		}()
		if cas.Batch {
			n := 0
			for _, e := range ents {
				for _, sev := range c12nonTerminating {
					if e.name == "Log(log/slog level)" {
						if _, ok := logslogLevelFor(sev); !ok {
							continue
						}
					}
					fmt.Printf("BEGIN %s %d\n", e.name, int(sev))
					e.call(l, sev, fmt.Sprintf("batch %d", n))
					n++
				}
			}
			// odd log/slog levels through Entry.Log: none of them is a terminating severity
			for _, lv := range []int{-20, -7, 1, 5, 9, 12, 15, 18, 19, 20, 32, 100} {
				fmt.Printf("BEGIN Log(odd level) %d\n", lv)
				l.Log(context.Background(), logslog.Level(lv), fmt.Sprintf("odd %d", lv))
				n++
			}
			// custom levels that are treated as Panic / Fatal for gating are still "other severities": they never terminate
			_ = slog.RegisterLevel(slog.Level(60), "c12likepanic", slog.RegWithTreatedAsLevel(slog.PanicLevel))
			_ = slog.RegisterLevel(slog.Level(61), "c12likefatal", slog.RegWithTreatedAsLevel(slog.FatalLevel), slog.RegWithPrintToErrorDevice(true))
			// ... and so are levels with a negative ordinal, registered or not
			_ = slog.RegisterLevel(slog.Level(-6), "c12negative")
			for _, lv := range []slog.Level{60, 61, 77, -5, -6} {
				fmt.Printf("BEGIN custom level %d\n", int(lv))
				l.LogAttrs(context.Background(), lv, fmt.Sprintf("custom %d", int(lv)), "k", 1)
				l.Logit(context.Background(), lv, fmt.Sprintf("custom %d", int(lv)))
				n++
			}
			fmt.Printf("DONE %d\n", n)
			os.Exit(0)
		}
		for k := 1; k < cas.Repeat; k++ {
			// earlier calls of the same kind in this process; their panics are recovered, nothing is reported
			func() {
				defer func() { _ = recover() }()
				ent.call(l, slog.Level(cas.Sev), c12msgFor(cas))
			}()
		}
		if cas.Repeat > 1 {
			// only the last call's record counts
			os.Truncate(args[1], 0)
		}
		ent.call(l, slog.Level(cas.Sev), c12msgFor(cas))
		fmt.Println("RETURNED")
		os.Exit(0)
	}
}

// ---- parent side

var c12lastStderr string

func c12spawn(cas c12case, scratch string) (stdout string, exit int, record string, err error) {
	c12lastStderr = ""
	bin := os.Getenv("VERIF_BIN")
	if bin == "" {
		bin, _ = os.Executable()
	}
	args := []string{}
	exe := bin
	if cas.TestMode {
		link := bin + ".test"
		if _, e := os.Lstat(link); e != nil {
			os.Symlink(bin, link)
		}
		exe = link
		args = append(args, "-test.v")
	}
	b, _ := json.Marshal(cas)
	recFile := filepath.Join(scratch, fmt.Sprintf("c12rec_%d_%d", os.Getpid(), time.Now().UnixNano()))
	defer os.Remove(recFile)
	args = append(args, "-sub", "c12", string(b), recFile)
	cmd := exec.Command(exe, args...)
	cmd.Env = append(os.Environ(), "GOTRACEBACK=none")
	var so, se strings.Builder
	cmd.Stdout = &so
	cmd.Stderr = &se
	done := make(chan error, 1)
	if e := cmd.Start(); e != nil {
		return "", 0, "", e
	}
	go func() { done <- cmd.Wait() }()
	select {
	case e := <-done:
		if e != nil {
			if ee, ok := e.(*exec.ExitError); ok {
				exit = ee.ExitCode()
			} else {
				return "", 0, "", e
			}
		}
	case <-time.After(60 * time.Second):
		cmd.Process.Kill()
		<-done
		return "", 0, "", fmt.Errorf("child timed out")
	}
	rb, _ := os.ReadFile(recFile)
	c12lastStderr = se.String()
	return so.String(), exit, string(rb), nil
}

func c12eval(cas c12case, scratch string) (*Violation, string) {
	stdout, exit, record, err := c12spawn(cas, scratch)
	if err != nil {
		return nil, "spawn failed: " + err.Error()
	}
	if strings.Contains(stdout, "INFRA") || exit >= 96 && exit <= 98 {
		return nil, "child infrastructure problem: " + firstLine(stdout)
	}
	mk := func(clause, detail string) *Violation {
		sig := fmt.Sprintf("C12|%s|entry=%s|severity=%s|noint=%v|always=%v|testmode=%v|level=%s|%s|args=%d|extra=%s|flags-via=%s|repeat=%d|level-via=%s", clause, cas.Entry, levelName(slog.Level(cas.Sev)), cas.NoInt, cas.IntAlw, cas.TestMode, levelName(slog.Level(cas.Level)), cas.Format, cas.NArgs, cas.Extra, cas.FlagPath, cas.Repeat, cas.LevelVia)
		return mkViolation(sig, clause, detail+fmt.Sprintf(" [child stdout %.200q, exit status %d, record file %.200q]", stdout, exit, record), cas)
	}
	// every logger of the child has writers of its own: the process's own stderr / stdout are no destination of its records
	if strings.Contains(c12lastStderr, c12msg) || strings.Contains(c12lastStderr, "batch ") {
		return mk("only-selected-destinations", fmt.Sprintf("the process's own stderr received a record although every logger of the process has writers of its own: %.300q", c12lastStderr)), ""
	}
	L := slog.Level(cas.Level)
	if cas.Batch {
		// no non-terminating severity ever ends the process
		if exit != 0 || !strings.Contains(stdout, "DONE ") {
			return mk("non-terminating-never-ends-process", "the batch of non-terminating calls did not run to completion"), ""
		}
		// and every admitted one left exactly one record
		lo, hi := 0, 0
		for _, e := range c12entries() {
			for _, sev := range c12nonTerminating {
				if e.name == "Log(log/slog level)" {
					if _, ok := logslogLevelFor(sev); !ok {
						continue
					}
				}
				a, fixed := refAdmit(L, sev, L == slog.DebugLevel, nil)
				if !fixed {
					hi++ // the statement does not fix this cell
				} else if a {
					lo++
					hi++
				}
			}
		}
		if got := strings.Count(record, "batch "); got < lo || got > hi {
			return mk("batch-records", fmt.Sprintf("%d records written by the batch, reference admits %d..%d", got, lo, hi)), ""
		}
		return nil, ""
	}
	sev := slog.Level(cas.Sev)
	admitted, fixed := refAdmit(L, sev, L == slog.DebugLevel, nil)
	if !fixed {
		return nil, ""
	}
	effective := (!cas.TestMode || cas.IntAlw) && !cas.NoInt
	recOK := strings.HasSuffix(record, "\n") && strings.Count(record, "\n") == 1 && strings.Contains(record, c12msg)
	if cas.Extra == "failing-writer" {
		// the diagnostic about the failed destination may follow the record on the healthy one
		recOK = strings.HasSuffix(record, "\n") && strings.Count(record, c12msg) == 1
	}
	if cas.Extra == "discard-destinations" {
		recOK = record == ""
	}
	if !admitted {
		if record != "" {
			return mk("not-admitted-silent", "a record was written although the call is not admitted"), ""
		}
		if exit != 0 || strings.TrimSpace(stdout) != "RETURNED" {
			return mk("not-admitted-no-termination", "the call is not admitted but the process did not simply return"), ""
		}
		return nil, ""
	}
	if !recOK {
		return mk("record-written-first", "an admitted call must leave exactly one complete record"), ""
	}
	if !effective {
		if exit != 0 || strings.TrimSpace(stdout) != "RETURNED" {
			return mk("no-termination-when-disabled", "termination is disabled (no-interrupt flag / go test without interrupt-always) but the call did not return"), ""
		}
		return nil, ""
	}
	if sev == slog.PanicLevel {
		want := fmt.Sprintf("PANIC:%q", c12msgFor(cas))
		if exit != 0 || strings.TrimSpace(stdout) != want {
			return mk("panic-with-message", fmt.Sprintf("expected the call to panic with the message (child prints %s)", want)), ""
		}
		return nil, ""
	}
	if exit != 253 {
		return mk("fatal-exits-253", fmt.Sprintf("expected exit status 253, got %d", exit)), ""
	}
	if strings.Contains(stdout, "RETURNED") || strings.Contains(stdout, "PANIC") {
		return mk("fatal-exits-253", "Fatal returned or panicked instead of exiting"), ""
	}
	return nil, ""
}

func init() {
	register(&CheckDef{ID: "C12", Run: c12run, Replay: func(raw json.RawMessage) *Violation {
		var cas c12case
		if json.Unmarshal(raw, &cas) != nil {
			return nil
		}
		scratch, _ := os.MkdirTemp("", "c12replay")
		defer os.RemoveAll(scratch)
		v, _ := c12eval(cas, scratch)
		return v
	}})
}

func c12run(c *Ctx) {
	c.Flag("exhaustive", true)
	scratch, _ := os.Getwd()
	formats := []string{"color"}
	if c.Thorough() {
		formats = []string{"color", "json", "logfmt"}
	}
	modes := []bool{false, true}
	n := 0
	infra := 0
	for _, f := range formats {
		for _, tm := range modes {
			for _, noint := range []bool{false, true} {
				for _, alw := range []bool{false, true} {
					for _, L := range builtinLevels {
						// terminating severities through every entry point
						for _, e := range c12entries() {
							for _, sev := range []slog.Level{slog.PanicLevel, slog.FatalLevel} {
								n++
								if !c.Mine(n) || c.Expired() {
									continue
								}
								variants := [][3]any{{[]int{0, 2, 4, -1, -2}[n%5], []string{"", "LattrsR", "Lcaller"}[(n/5)%3], []string{"", "scope"}[(n/15)%2]}}
								if c.Thorough() {
									variants = nil
									for _, na := range []int{0, 2, 4, -1, -2} {
										for _, ex := range []string{"", "LattrsR", "Lcaller"} {
											for _, fp := range []string{"", "scope"} {
												variants = append(variants, [3]any{na, ex, fp})
											}
										}
									}
								} else if e.generic {
									// quick: the generic entry points additionally with ready-made Attr arguments
									variants = append(variants, [3]any{-1, "", ""}, [3]any{2, "", "scope"})
								} else {
									variants = append(variants, [3]any{2, "", "scope"})
								}
								if c.Thorough() || n%3 == 0 {
									// larger / rarer shapes: one Attrs argument with 200 members; a nil context on a logger with
									// context keys; a second, failing destination
									variants = append(variants, [3]any{-3, "", ""}, [3]any{2, "nilctx-ctxkeys", ""}, [3]any{2, "failing-writer", ""}, [3]any{2, "msg-eol", ""}, [3]any{2, "discard-destinations", ""})
								}
								for vi, vr := range variants {
									cas := c12case{Entry: e.name, Sev: int(sev), NoInt: noint, IntAlw: alw, TestMode: tm, Level: int(L), Format: f, NArgs: vr[0].(int), Extra: vr[1].(string), FlagPath: vr[2].(string)}
									if sev == slog.PanicLevel && (c.Thorough() && vi%2 == 0 || !c.Thorough() && vi == 0) {
										cas.Repeat = 3
									}
									if (n+vi)%2 == 1 {
										cas.LevelVia = "option"
									}
									c.Count("evaluations", 1)
									v, problem := c12eval(cas, scratch)
									if problem != "" {
										infra++
										c.Note("infrastructure: " + problem)
										c.Flag("exhaustive", false)
										continue
									}
									if v != nil {
										c.Violate(v)
										continue
									}
									c.Count("distinct_nontrivial", 1)
									c.Outcome(fmt.Sprint(cas.Sev, cas.NoInt, cas.IntAlw, cas.TestMode, cas.Level))
									if n%701 == 0 {
										c.Sample(cas)
									}
								}
							}
						}
						// all other severities, batched
						n++
						if c.Mine(n) && !c.Expired() {
							cas := c12case{Entry: "batch", Batch: true, NoInt: noint, IntAlw: alw, TestMode: tm, Level: int(L), Format: f, NArgs: []int{0, 2, 4}[n%3], Extra: []string{"", "LattrsR", "Lcaller"}[(n/3)%3]}
							c.Count("evaluations", 1)
							c.Count("negative_batches", 1)
							v, problem := c12eval(cas, scratch)
							if problem != "" {
								c.Note("infrastructure: " + problem)
								c.Flag("exhaustive", false)
							} else if v != nil {
								c.Violate(v)
							} else {
								c.Count("distinct_nontrivial", 1)
							}
						}
					}
				}
			}
		}
	}
	c.Info("entry_forms", len(c12entries()))
}
