package main

// Value alphabet shared by C02/C04/C05/C06/C07: one representative per branch
// of PrintCtx.appendValue plus the special values of each kind, each with its
// independent expectations for the JSON and logfmt oracles.

import (
	"encoding/base64"
	"encoding/json"
	"errors"
	"fmt"
	"math"
	"strconv"
	"strings"
	"time"
	"unicode/utf8"

	"github.com/hedzr/logg/slog"
	errorsv3 "gopkg.in/hedzr/errors.v3"

	"verif/oracle/jsonx"
	"verif/oracle/logfmt"
)

type valSpec struct {
	Name   string
	Kind   string
	Mk     func() any
	JSON   func(j any) string         // "" = decoded JSON value j preserves the logged value
	Logfmt func(p logfmt.Pair) string // "" = logfmt pair preserves the logged value
	Plain  bool                       // benign scalar (used where one value per kind suffices)
}

func toValid(s string) string { return strings.ToValidUTF8(s, "\ufffd") }
func toValidPerByte(s string) string {
	var sb strings.Builder
	for i := 0; i < len(s); {
		r, w := utf8.DecodeRuneInString(s[i:])
		if r == utf8.RuneError && w == 1 {
			sb.WriteString("\ufffd")
		} else {
			sb.WriteString(s[i : i+w])
		}
		i += w
	}
	return sb.String()
}

func jsonStringIs(j any, s string) string {
	js, ok := j.(string)
	if !ok {
		return fmt.Sprintf("expected a JSON string, got %T %v", j, j)
	}
	if js == s {
		return ""
	}
	if !utf8.ValidString(s) && (js == toValid(s) || js == toValidPerByte(s)) {
		return ""
	}
	return fmt.Sprintf("string not preserved: decoded %q, logged %q", js, s)
}

func jsonNumText(j any) (string, bool) {
	switch z := j.(type) {
	case json.Number:
		return z.String(), true
	case string:
		return z, true
	}
	return "", false
}

func jsonIntIs(j any, v int64) string {
	t, ok := jsonNumText(j)
	if !ok {
		return fmt.Sprintf("expected a number, got %T %v", j, j)
	}
	g, err := strconv.ParseInt(t, 10, 64)
	if err != nil || g != v {
		return fmt.Sprintf("integer not preserved: decoded %q, logged %d", t, v)
	}
	return ""
}

func jsonUintIs(j any, v uint64) string {
	t, ok := jsonNumText(j)
	if !ok {
		return fmt.Sprintf("expected a number, got %T %v", j, j)
	}
	g, err := strconv.ParseUint(t, 10, 64)
	if err != nil || g != v {
		return fmt.Sprintf("unsigned integer not preserved: decoded %q, logged %d", t, v)
	}
	return ""
}

func floatEq(a, b float64) bool {
	if math.IsNaN(a) || math.IsNaN(b) {
		return math.IsNaN(a) && math.IsNaN(b)
	}
	return a == b && math.Signbit(a) == math.Signbit(b)
}

func jsonFloatIs(j any, v float64) string {
	t, ok := jsonNumText(j)
	if !ok {
		return fmt.Sprintf("expected a number, got %T %v", j, j)
	}
	g, err := strconv.ParseFloat(t, 64)
	if err != nil && !(errors.Is(err, strconv.ErrRange) && math.IsInf(g, 0)) {
		return fmt.Sprintf("float text %q does not parse", t)
	}
	if !floatEq(g, v) {
		return fmt.Sprintf("float not preserved: decoded %q, logged %v", t, v)
	}
	return ""
}

func complexEq(a, b complex128) bool {
	return floatEq(real(a), real(b)) && floatEq(imag(a), imag(b))
}

func complexTextIs(t string, v complex128) string {
	g, err := strconv.ParseComplex(t, 128)
	if err != nil {
		return fmt.Sprintf("complex text %q does not parse: %v", t, err)
	}
	// ParseComplex cannot tell -0 from +0 in all positions; compare numerically with NaN awareness
	eq := func(a, b float64) bool {
		if math.IsNaN(a) || math.IsNaN(b) {
			return math.IsNaN(a) && math.IsNaN(b)
		}
		return a == b
	}
	if !eq(real(g), real(v)) || !eq(imag(g), imag(v)) {
		return fmt.Sprintf("complex not preserved: decoded %q, logged %v", t, v)
	}
	return ""
}

func timeTextIs(t string, v time.Time) string {
	g, err := time.Parse(time.RFC3339Nano, t)
	if err != nil {
		return fmt.Sprintf("time text %q is not RFC 3339: %v", t, err)
	}
	if !g.Equal(v) {
		return fmt.Sprintf("time not preserved: decoded %q, logged %v", t, v.Format(time.RFC3339Nano))
	}
	return ""
}

func durTextIs(t string, v time.Duration) string {
	g, err := time.ParseDuration(t)
	if err != nil {
		if n, e2 := strconv.ParseInt(t, 10, 64); e2 == nil && time.Duration(n) == v {
			return ""
		}
		return fmt.Sprintf("duration text %q does not parse: %v", t, err)
	}
	if g != v {
		return fmt.Sprintf("duration not preserved: decoded %q, logged %v", t, v)
	}
	return ""
}

func bytesTextIs(t string, b []byte) string {
	s := string(b)
	if t == s || (!utf8.ValidString(s) && (t == toValid(s) || t == toValidPerByte(s))) {
		return ""
	}
	if t == base64.StdEncoding.EncodeToString(b) {
		return ""
	}
	return fmt.Sprintf("byte slice not preserved: decoded %q, logged %q", t, s)
}

// splitList splits the inside of a bracketed logfmt/colour list on commas that
// are outside quoted strings.
func splitList(raw string) ([]string, bool) {
	if len(raw) < 2 || raw[0] != '[' || raw[len(raw)-1] != ']' {
		return nil, false
	}
	in := raw[1 : len(raw)-1]
	if in == "" {
		return []string{}, true
	}
	var out []string
	start := 0
	for i := 0; i < len(in); i++ {
		switch in[i] {
		case '"':
			i++
			for i < len(in) && in[i] != '"' {
				if in[i] == '\\' {
					i++
				}
				i++
			}
		case ',':
			out = append(out, in[start:i])
			start = i + 1
		}
	}
	out = append(out, in[start:])
	return out, true
}

type stringerV struct{ s string }

func (s stringerV) String() string { return s.s }

type structV struct {
	A int
	B string
}

var (
	tsUTC  = time.Date(2024, 3, 4, 5, 6, 7, 123456789, time.UTC)
	tsZone = time.Date(2021, 12, 31, 23, 59, 59, 1, time.FixedZone("", 5*3600+1800))
)

// criticalStrings is the L1 critical set of DESIGN.md C04.
var criticalStrings = []string{"\"", "\\", "\n", "\r", "\t", "\x01", "\x1b", "\x7f", "\xff", "\u0085", "\u2028", "\ufffd", "\U0001F600", "\x00", " ", "=", "'"}

func buildValSpecs() []valSpec {
	var vs []valSpec
	add := func(v valSpec) { vs = append(vs, v) }

	strs := []struct{ n, s string }{
		{"plain", "v"}, {"empty", ""}, {"space", "a b"}, {"quote", `a"b`}, {"backslash", `a\b`}, {"lf", "a\nb"}, {"crlf", "a\r\nb"},
		{"tab", "a\tb"}, {"ctl01", "a\x01b"}, {"esc", "a\x1b[31mb"}, {"del", "a\x7fb"}, {"bell", "a\ab"}, {"vt", "a\vb"},
		{"invalid-utf8", "a\xffb"}, {"nel", "a\u0085b"}, {"u2028", "a\u2028b"}, {"ufffd", "a\ufffdb"}, {"emoji", "a\U0001F600b"},
		{"nul", "a\x00b"}, {"equals", "k=v x=y"}, {"looks-like-json", `","msg":"forged`}, {"long", strings.Repeat("0123456789", 200)},
	}
	for i, s := range strs {
		s := s
		add(valSpec{Name: "string:" + s.n, Kind: "string", Plain: i == 0, Mk: func() any { return s.s },
			JSON: func(j any) string { return jsonStringIs(j, s.s) },
			Logfmt: func(p logfmt.Pair) string {
				if !p.Quoted {
					return "string value is not quoted"
				}
				if p.Val != s.s {
					return fmt.Sprintf("string not preserved: parsed %q, logged %q", p.Val, s.s)
				}
				return ""
			}})
	}
	for _, b := range []bool{true, false} {
		b := b
		add(valSpec{Name: fmt.Sprintf("bool:%v", b), Kind: "bool", Plain: b, Mk: func() any { return b },
			JSON: func(j any) string {
				if jb, ok := j.(bool); ok && jb == b {
					return ""
				}
				if js, ok := j.(string); ok && js == strconv.FormatBool(b) {
					return ""
				}
				return fmt.Sprintf("bool not preserved: %v", j)
			},
			Logfmt: func(p logfmt.Pair) string {
				if p.Val != strconv.FormatBool(b) {
					return fmt.Sprintf("bool not preserved: %q", p.Raw)
				}
				return ""
			}})
	}
	intv := func(name string, mk func() any, v int64, plain bool) {
		add(valSpec{Name: name, Kind: "int", Plain: plain, Mk: mk,
			JSON: func(j any) string { return jsonIntIs(j, v) },
			Logfmt: func(p logfmt.Pair) string {
				g, err := strconv.ParseInt(p.Val, 10, 64)
				if err != nil || g != v {
					return fmt.Sprintf("integer not preserved: %q vs %d", p.Raw, v)
				}
				return ""
			}})
	}
	intv("int:0", func() any { return int(0) }, 0, false)
	intv("int:-1", func() any { return int(-1) }, -1, true)
	intv("int:min", func() any { return int(math.MinInt64) }, math.MinInt64, false)
	intv("int:max", func() any { return int(math.MaxInt64) }, math.MaxInt64, false)
	intv("int8:min", func() any { return int8(math.MinInt8) }, math.MinInt8, false)
	intv("int8:max", func() any { return int8(math.MaxInt8) }, math.MaxInt8, false)
	intv("int16:min", func() any { return int16(math.MinInt16) }, math.MinInt16, false)
	intv("int32:max", func() any { return int32(math.MaxInt32) }, math.MaxInt32, false)
	intv("int64:min", func() any { return int64(math.MinInt64) }, math.MinInt64, false)
	uintv := func(name string, mk func() any, v uint64, plain bool) {
		add(valSpec{Name: name, Kind: "uint", Plain: plain, Mk: mk,
			JSON: func(j any) string { return jsonUintIs(j, v) },
			Logfmt: func(p logfmt.Pair) string {
				g, err := strconv.ParseUint(p.Val, 10, 64)
				if err != nil || g != v {
					return fmt.Sprintf("unsigned integer not preserved: %q vs %d", p.Raw, v)
				}
				return ""
			}})
	}
	uintv("uint:0", func() any { return uint(0) }, 0, false)
	uintv("uint:7", func() any { return uint(7) }, 7, true)
	uintv("uint:max", func() any { return uint(math.MaxUint64) }, math.MaxUint64, false)
	uintv("uint8:max", func() any { return uint8(math.MaxUint8) }, math.MaxUint8, false)
	uintv("uint16:max", func() any { return uint16(math.MaxUint16) }, math.MaxUint16, false)
	uintv("uint32:max", func() any { return uint32(math.MaxUint32) }, math.MaxUint32, false)
	uintv("uint64:max", func() any { return uint64(math.MaxUint64) }, math.MaxUint64, false)
	floatv := func(name string, mk func() any, v float64, plain bool) {
		add(valSpec{Name: name, Kind: "float", Plain: plain, Mk: mk,
			JSON: func(j any) string { return jsonFloatIs(j, v) },
			Logfmt: func(p logfmt.Pair) string {
				g, err := strconv.ParseFloat(p.Val, 64)
				if (err != nil && !math.IsInf(g, 0)) || !floatEq(g, v) {
					return fmt.Sprintf("float not preserved: %q vs %v", p.Raw, v)
				}
				return ""
			}})
	}
	floatv("float64:0", func() any { return float64(0) }, 0, false)
	floatv("float64:-0", func() any { return math.Copysign(0, -1) }, math.Copysign(0, -1), false)
	floatv("float64:1.5", func() any { return 1.5 }, 1.5, true)
	floatv("float64:1e21", func() any { return 1e21 }, 1e21, false)
	floatv("float64:5e-324", func() any { return 5e-324 }, 5e-324, false)
	floatv("float64:max", func() any { return math.MaxFloat64 }, math.MaxFloat64, false)
	floatv("float64:NaN", func() any { return math.NaN() }, math.NaN(), false)
	floatv("float64:+Inf", func() any { return math.Inf(1) }, math.Inf(1), false)
	floatv("float64:-Inf", func() any { return math.Inf(-1) }, math.Inf(-1), false)
	floatv("float32:0.1", func() any { return float32(0.1) }, float64(float32(0.1)), false)
	floatv("float32:max", func() any { return float32(math.MaxFloat32) }, float64(float32(math.MaxFloat32)), false)
	cplx := func(name string, mk func() any, v complex128) {
		add(valSpec{Name: name, Kind: "complex", Mk: mk, Plain: name == "complex128:1-2i",
			JSON: func(j any) string {
				t, ok := j.(string)
				if !ok {
					return fmt.Sprintf("complex: expected a string, got %T", j)
				}
				return complexTextIs(t, v)
			},
			Logfmt: func(p logfmt.Pair) string { return complexTextIs(p.Val, v) }})
	}
	cplx("complex128:1-2i", func() any { return complex(1, -2) }, complex(1, -2))
	cplx("complex128:0+0i", func() any { return complex(0, 0) }, complex(0, 0))
	cplx("complex128:NaN", func() any { return complex(math.NaN(), math.Inf(1)) }, complex(math.NaN(), math.Inf(1)))
	cplx("complex64:1.5+2.5i", func() any { return complex64(complex(1.5, 2.5)) }, complex(1.5, 2.5))
	for _, t := range []struct {
		n string
		t time.Time
	}{{"utc-ns", tsUTC}, {"zero", time.Time{}}, {"+05:30", tsZone}, {"utc-ns-seen-from-+05:30", tsUTC.In(time.FixedZone("", 5*3600+30*60))}} {
		t := t
		add(valSpec{Name: "time:" + t.n, Kind: "time", Plain: t.n == "utc-ns", Mk: func() any { return t.t },
			JSON: func(j any) string {
				s, ok := j.(string)
				if !ok {
					return fmt.Sprintf("time: expected a string, got %T", j)
				}
				return timeTextIs(s, t.t)
			},
			Logfmt: func(p logfmt.Pair) string { return timeTextIs(p.Val, t.t) }})
	}
	for _, t := range []struct {
		n string
		t time.Time
	}{{"year-12345", time.Date(12345, 6, 7, 8, 9, 10, 11, time.UTC)}, {"year-minus-50", time.Date(-50, 6, 7, 8, 9, 10, 11, time.UTC)}} {
		t := t
		// years outside 0..9999 cannot be parsed back by package time: the text itself is compared
		want := t.t.Format(time.RFC3339Nano)
		add(valSpec{Name: "time:" + t.n, Kind: "time", Mk: func() any { return t.t },
			JSON: func(j any) string {
				if s, ok := j.(string); !ok || s != want {
					return fmt.Sprintf("time not preserved: %v, logged %s", j, want)
				}
				return ""
			},
			Logfmt: func(p logfmt.Pair) string {
				if p.Val != want {
					return fmt.Sprintf("time not preserved: %q, logged %s", p.Raw, want)
				}
				return ""
			}})
	}
	for _, lv := range []slog.Level{slog.WarnLevel, slog.Level(4242)} {
		lv := lv
		add(valSpec{Name: fmt.Sprintf("level:%d", int(lv)), Kind: "stringer", Mk: func() any { return lv },
			JSON: func(j any) string { return jsonStringIs(j, lv.String()) },
			Logfmt: func(p logfmt.Pair) string {
				if p.Val != lv.String() {
					return fmt.Sprintf("level value not preserved: %q, logged %s", p.Raw, lv.String())
				}
				return ""
			}})
	}
	for _, d := range []time.Duration{1500 * time.Millisecond, 0, 1, math.MinInt64, math.MaxInt64} {
		d := d
		add(valSpec{Name: fmt.Sprintf("duration:%d", int64(d)), Kind: "duration", Plain: d == 1500*time.Millisecond, Mk: func() any { return d },
			JSON: func(j any) string {
				t, ok := jsonNumText(j)
				if !ok {
					return fmt.Sprintf("duration: expected string or number, got %T", j)
				}
				return durTextIs(t, d)
			},
			Logfmt: func(p logfmt.Pair) string { return durTextIs(p.Val, d) }})
	}
	errv := func(name string, mk func() error) {
		add(valSpec{Name: name, Kind: "error", Plain: name == "error:plain", Mk: func() any { return mk() },
			JSON: func(j any) string {
				want := mk().Error()
				switch z := j.(type) {
				case string:
					return jsonStringIs(z, want)
				case *jsonx.Obj:
					m, ok := z.Get("message")
					if !ok {
						return "error object without a message member"
					}
					return jsonStringIs(m, want)
				}
				return fmt.Sprintf("error: unexpected JSON %T", j)
			},
			Logfmt: func(p logfmt.Pair) string {
				if !p.Quoted {
					return "error text is not quoted"
				}
				if p.Val != mk().Error() {
					return fmt.Sprintf("error text not preserved: %q vs %q", p.Val, mk().Error())
				}
				return ""
			}})
	}
	errv("error:plain", func() error { return errors.New("boom") })
	errv("error:nasty-text", func() error { return errors.New("bad \"thing\"\nsecond line \x1b[31m") })
	errv("error:joined", func() error { return errors.Join(errors.New("e1"), errors.New("e2")) })
	errv("error:v3-with-stack", func() error { return errorsv3.New("v3 error") })
	// an errors.v3 error whose recorded stack is empty (a skip count beyond the bottom of the stack)
	errv("error:v3-empty-stack", func() error { return errorsv3.New("v3 error without frames").WithSkip(100).(error) })
	add(valSpec{Name: "stringer", Kind: "stringer", Mk: func() any { return stringerV{"str \"x\"\n"} },
		JSON: func(j any) string { return jsonStringIs(j, "str \"x\"\n") },
		Logfmt: func(p logfmt.Pair) string {
			if !p.Quoted || p.Val != "str \"x\"\n" {
				return fmt.Sprintf("Stringer text not preserved: %q", p.Raw)
			}
			return ""
		}})
	add(valSpec{Name: "stringer:logs-while-formatting", Kind: "stringer", Mk: func() any { return reentV{"re \"x\"\n"} },
		JSON: func(j any) string { return jsonStringIs(j, "re \"x\"\n") },
		Logfmt: func(p logfmt.Pair) string {
			if !p.Quoted || p.Val != "re \"x\"\n" {
				return fmt.Sprintf("Stringer text not preserved: %q", p.Raw)
			}
			return ""
		}})
	for _, b := range []struct {
		n string
		b []byte
	}{{"ascii", []byte("xy")}, {"empty", []byte{}}, {"space-eq", []byte("a b=c")}, {"quote", []byte(`x"y`)}, {"lf", []byte("x\ny")}, {"esc", []byte("x\x1b[31my")}, {"invalid-utf8", []byte("x\xffy")}} {
		b := b
		add(valSpec{Name: "bytes:" + b.n, Kind: "bytes", Plain: b.n == "ascii", Mk: func() any { return append([]byte{}, b.b...) },
			JSON: func(j any) string {
				s, ok := j.(string)
				if !ok {
					return fmt.Sprintf("byte slice: expected a JSON string, got %T %v", j, j)
				}
				return bytesTextIs(s, b.b)
			},
			Logfmt: func(p logfmt.Pair) string {
				if !p.Quoted {
					return "byte-slice value is not quoted"
				}
				return bytesTextIs(p.Val, b.b)
			}})
	}
	add(valSpec{Name: "nil", Kind: "nil", Plain: true, Mk: func() any { return nil },
		JSON: func(j any) string {
			if j == nil {
				return ""
			}
			if s, ok := j.(string); ok && (s == "<nil>" || s == "nil" || s == "null") {
				return ""
			}
			return fmt.Sprintf("nil: expected null or a fixed placeholder, got %T %v", j, j)
		},
		Logfmt: func(p logfmt.Pair) string {
			if p.Val == "<nil>" || p.Val == "nil" || p.Val == "null" {
				return ""
			}
			return fmt.Sprintf("nil: unexpected %q", p.Raw)
		}})
	anyOK := func(j any) string { return "" }
	anyPair := func(p logfmt.Pair) string { return "" }
	// a nil pointer inside the error interface (its Error method copes with the nil receiver)
	add(valSpec{Name: "error:typed-nil", Kind: "error", Mk: func() any { return error((*tnErr)(nil)) }, JSON: anyOK, Logfmt: anyPair})
	// values that implement encoding.TextMarshaler next to Stringer / error (net.IP, *big.Int, *regexp.Regexp are of this kind)
	add(valSpec{Name: "stringer+textmarshaler", Kind: "stringer", Mk: func() any { return tmStringer{"tm \"x\" y=z\n"} },
		JSON: func(j any) string { return jsonStringIs(j, "tm \"x\" y=z\n") },
		Logfmt: func(p logfmt.Pair) string {
			if !p.Quoted || p.Val != "tm \"x\" y=z\n" {
				return fmt.Sprintf("text of a Stringer that is a TextMarshaler as well not preserved (or not quoted): %q", p.Raw)
			}
			return ""
		}})
	add(valSpec{Name: "error+textmarshaler", Kind: "error", Mk: func() any { return tmError{"te \"x\" y=z\n"} },
		JSON: func(j any) string {
			if o, ok := j.(*jsonx.Obj); ok {
				if m, ok := o.Get("message"); ok {
					j = m
				}
			}
			return jsonStringIs(j, "te \"x\" y=z\n")
		},
		Logfmt: func(p logfmt.Pair) string {
			if !p.Quoted || p.Val != "te \"x\" y=z\n" {
				return fmt.Sprintf("text of an error that is a TextMarshaler as well not preserved (or not quoted): %q", p.Raw)
			}
			return ""
		}})
	// a Stringer whose text is itself a double-quoted literal that carries raw control bytes
	add(valSpec{Name: "stringer:self-quoted-with-controls", Kind: "stringer", Mk: func() any { return stringerV{"\"id \x1b[31mred\a\""} },
		JSON: func(j any) string { return jsonStringIs(j, "\"id \x1b[31mred\a\"") },
		Logfmt: func(p logfmt.Pair) string {
			if !p.Quoted || p.Val != "\"id \x1b[31mred\a\"" {
				return fmt.Sprintf("self-quoted Stringer text not preserved (or not quoted again): %q", p.Raw)
			}
			return ""
		}})
	// values encoding/json refuses to marshal (a NaN inside a map, a struct with a channel): whatever text they get, the record stays well-formed
	add(valSpec{Name: "map-with-NaN", Kind: "fallback", Mk: func() any { return map[string]any{"ratio": math.NaN(), "n": 1} }, JSON: anyOK, Logfmt: anyPair})
	add(valSpec{Name: "struct-with-chan", Kind: "fallback", Mk: func() any { return structWithChan{Name: "x", C: make(chan int)} }, JSON: anyOK, Logfmt: anyPair})
	add(valSpec{Name: "typed-nil-pointer", Kind: "fallback", Mk: func() any { return (*structV)(nil) }, JSON: anyOK, Logfmt: anyPair})
	add(valSpec{Name: "level", Kind: "level", Mk: func() any { return slog.WarnLevel },
		JSON: func(j any) string { return jsonStringIs(j, slog.WarnLevel.String()) },
		Logfmt: func(p logfmt.Pair) string {
			if p.Val != slog.WarnLevel.String() {
				return "level text not preserved"
			}
			return ""
		}})
	// slices
	sliceJSON := func(n int, elem func(i int, j any) string) func(j any) string {
		return func(j any) string {
			arr, ok := j.([]any)
			if !ok {
				return fmt.Sprintf("slice: expected a JSON array, got %T", j)
			}
			if len(arr) != n {
				return fmt.Sprintf("slice: %d elements decoded, %d logged", len(arr), n)
			}
			for i, e := range arr {
				if r := elem(i, e); r != "" {
					return fmt.Sprintf("element %d: %s", i, r)
				}
			}
			return ""
		}
	}
	sliceLF := func(n int, elem func(i int, t string) string) func(p logfmt.Pair) string {
		return func(p logfmt.Pair) string {
			parts, ok := splitList(p.Raw)
			if !ok {
				return fmt.Sprintf("slice: not a bracketed list: %q", p.Raw)
			}
			if len(parts) != n {
				return fmt.Sprintf("slice: %d elements parsed, %d logged (%q)", len(parts), n, p.Raw)
			}
			for i, e := range parts {
				if r := elem(i, e); r != "" {
					return fmt.Sprintf("element %d: %s", i, r)
				}
			}
			return ""
		}
	}
	ss := []string{"a b", "c,\"d\"", "e\nf"}
	for _, n := range []int{0, 1, 3} {
		n := n
		add(valSpec{Name: fmt.Sprintf("[]string:%d", n), Kind: "slice", Mk: func() any { return append([]string{}, ss[:n]...) },
			JSON: sliceJSON(n, func(i int, j any) string { return jsonStringIs(j, ss[i]) }),
			Logfmt: sliceLF(n, func(i int, t string) string {
				u, err := strconv.Unquote(t)
				if err != nil || u != ss[i] {
					return fmt.Sprintf("string element not preserved: %q", t)
				}
				return ""
			})})
	}
	is := []int{1, -2, 3}
	add(valSpec{Name: "[]int:3", Kind: "slice", Mk: func() any { return append([]int{}, is...) },
		JSON: sliceJSON(3, func(i int, j any) string { return jsonIntIs(j, int64(is[i])) }),
		Logfmt: sliceLF(3, func(i int, t string) string {
			if g, err := strconv.ParseInt(t, 10, 64); err != nil || g != int64(is[i]) {
				return "int element not preserved"
			}
			return ""
		})})
	add(valSpec{Name: "[]int64:0", Kind: "slice", Mk: func() any { return []int64{} },
		JSON: sliceJSON(0, nil), Logfmt: sliceLF(0, nil)})
	us := []uint16{0, 65535}
	add(valSpec{Name: "[]uint16:2", Kind: "slice", Mk: func() any { return append([]uint16{}, us...) },
		JSON: sliceJSON(2, func(i int, j any) string { return jsonUintIs(j, uint64(us[i])) }),
		Logfmt: sliceLF(2, func(i int, t string) string {
			if g, err := strconv.ParseUint(t, 10, 64); err != nil || g != uint64(us[i]) {
				return "uint element not preserved"
			}
			return ""
		})})
	u64 := []uint64{7, math.MaxUint64, 1 << 63}
	add(valSpec{Name: "[]uint64:max", Kind: "slice", Mk: func() any { return append([]uint64{}, u64...) },
		JSON: sliceJSON(3, func(i int, j any) string { return jsonUintIs(j, u64[i]) }),
		Logfmt: sliceLF(3, func(i int, t string) string {
			if g, err := strconv.ParseUint(t, 10, 64); err != nil || g != u64[i] {
				return "uint64 element not preserved"
			}
			return ""
		})})
	uu := []uint{0, math.MaxUint64}
	add(valSpec{Name: "[]uint:max", Kind: "slice", Mk: func() any { return append([]uint{}, uu...) },
		JSON: sliceJSON(2, func(i int, j any) string { return jsonUintIs(j, uint64(uu[i])) }),
		Logfmt: sliceLF(2, func(i int, t string) string {
			if g, err := strconv.ParseUint(t, 10, 64); err != nil || g != uint64(uu[i]) {
				return "uint element not preserved"
			}
			return ""
		})})
	i8 := []int8{-128, 127}
	add(valSpec{Name: "[]int8:minmax", Kind: "slice", Mk: func() any { return append([]int8{}, i8...) },
		JSON: sliceJSON(2, func(i int, j any) string { return jsonIntIs(j, int64(i8[i])) }),
		Logfmt: sliceLF(2, func(i int, t string) string {
			if g, err := strconv.ParseInt(t, 10, 64); err != nil || g != int64(i8[i]) {
				return "int8 element not preserved"
			}
			return ""
		})})
	i64 := []int64{math.MinInt64, math.MaxInt64}
	add(valSpec{Name: "[]int64:minmax", Kind: "slice", Mk: func() any { return append([]int64{}, i64...) },
		JSON: sliceJSON(2, func(i int, j any) string { return jsonIntIs(j, i64[i]) }),
		Logfmt: sliceLF(2, func(i int, t string) string {
			if g, err := strconv.ParseInt(t, 10, 64); err != nil || g != i64[i] {
				return "int64 element not preserved"
			}
			return ""
		})})
	f32 := []float32{0.1, -2.5}
	add(valSpec{Name: "[]float32:2", Kind: "slice", Mk: func() any { return append([]float32{}, f32...) },
		JSON: sliceJSON(2, func(i int, j any) string { return jsonFloatIs(j, float64(f32[i])) }),
		Logfmt: sliceLF(2, func(i int, t string) string {
			if g, err := strconv.ParseFloat(t, 64); err != nil || !floatEq(g, float64(f32[i])) {
				return "float32 element not preserved"
			}
			return ""
		})})
	fs := []float64{1.5, math.Inf(-1), math.NaN()}
	add(valSpec{Name: "[]float64:3", Kind: "slice", Mk: func() any { return append([]float64{}, fs...) },
		JSON: sliceJSON(3, func(i int, j any) string { return jsonFloatIs(j, fs[i]) }),
		Logfmt: sliceLF(3, func(i int, t string) string {
			if g, err := strconv.ParseFloat(t, 64); (err != nil && !math.IsInf(g, 0)) || !floatEq(g, fs[i]) {
				return "float element not preserved"
			}
			return ""
		})})
	bs := []bool{true, false}
	add(valSpec{Name: "[]bool:2", Kind: "slice", Mk: func() any { return append([]bool{}, bs...) },
		JSON: sliceJSON(2, func(i int, j any) string {
			if b, ok := j.(bool); ok && b == bs[i] {
				return ""
			}
			return "bool element not preserved"
		}),
		Logfmt: sliceLF(2, func(i int, t string) string {
			if t != strconv.FormatBool(bs[i]) {
				return "bool element not preserved"
			}
			return ""
		})})
	cs := []complex128{complex(1, 2), complex(0, -1)}
	add(valSpec{Name: "[]complex128:2", Kind: "slice", Mk: func() any { return append([]complex128{}, cs...) },
		JSON: sliceJSON(2, func(i int, j any) string {
			t, ok := j.(string)
			if !ok {
				return "complex element is not a string"
			}
			return complexTextIs(t, cs[i])
		}),
		Logfmt: sliceLF(2, func(i int, t string) string { return complexTextIs(t, cs[i]) })})
	ts := []time.Time{tsUTC, tsZone}
	add(valSpec{Name: "[]time:2", Kind: "slice", Mk: func() any { return append([]time.Time{}, ts...) },
		JSON: sliceJSON(2, func(i int, j any) string {
			t, ok := j.(string)
			if !ok {
				return "time element is not a string"
			}
			return timeTextIs(t, ts[i])
		}),
		Logfmt: sliceLF(2, func(i int, t string) string {
			u, err := strconv.Unquote(t)
			if err != nil {
				u = t
			}
			return timeTextIs(u, ts[i])
		})})
	ds := []time.Duration{time.Second, 90 * time.Minute}
	add(valSpec{Name: "[]duration:2", Kind: "slice", Mk: func() any { return append([]time.Duration{}, ds...) },
		JSON: sliceJSON(2, func(i int, j any) string {
			t, ok := jsonNumText(j)
			if !ok {
				return "duration element is neither string nor number"
			}
			return durTextIs(t, ds[i])
		}),
		Logfmt: sliceLF(2, func(i int, t string) string {
			u, err := strconv.Unquote(t)
			if err != nil {
				u = t
			}
			return durTextIs(u, ds[i])
		})})
	// fallback formatter
	add(valSpec{Name: "struct", Kind: "fallback", Mk: func() any { return structV{1, "x \"y\"\n\x1b[0m"} }, JSON: anyOK, Logfmt: anyPair})
	add(valSpec{Name: "map", Kind: "fallback", Mk: func() any { return map[string]int{"a b": 1} }, JSON: anyOK, Logfmt: anyPair})
	add(valSpec{Name: "pointer-to-struct", Kind: "fallback", Mk: func() any { return &structV{2, "p"} }, JSON: anyOK, Logfmt: anyPair})
	add(valSpec{Name: "[]any", Kind: "fallback", Mk: func() any { return []any{1, "a b", nil} }, JSON: anyOK, Logfmt: anyPair})
	return vs
}

var valSpecs = buildValSpecs()

func valSpecByName(n string) *valSpec {
	for i := range valSpecs {
		if valSpecs[i].Name == n {
			return &valSpecs[i]
		}
	}
	return nil
}

func plainVals() (r []*valSpec) {
	for i := range valSpecs {
		if valSpecs[i].Plain {
			r = append(r, &valSpecs[i])
		}
	}
	return
}

type tnErr struct{ s string }

func (e *tnErr) Error() string {
	if e == nil {
		return "typed-nil error"
	}
	return e.s
}

type tmStringer struct{ s string }

func (v tmStringer) String() string               { return v.s }
func (v tmStringer) MarshalText() ([]byte, error) { return []byte(v.s), nil }

type tmError struct{ s string }

func (v tmError) Error() string                { return v.s }
func (v tmError) MarshalText() ([]byte, error) { return []byte(v.s), nil }

type structWithChan struct {
	Name string
	C    chan int
}
