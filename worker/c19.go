package main

// C19 - PrintCtx's buffer API == bytes.Buffer.  Shape H: BFS over operation
// histories, both objects driven in lock-step, de-duplicated on the full
// internal tuple of the implementation.

import (
	"reflect"
	"bytes"
	"encoding/json"
	"errors"
	"fmt"
	"io"
	"math"
	"strings"

	"github.com/hedzr/logg/slog"
)

type bufAPI interface {
	Write(p []byte) (int, error)
	WriteString(s string) (int, error)
	WriteByte(c byte) error
	WriteRune(r rune) (int, error)
	Read(p []byte) (int, error)
	ReadByte() (byte, error)
	ReadRune() (rune, int, error)
	UnreadByte() error
	UnreadRune() error
	Next(n int) []byte
	ReadBytes(delim byte) ([]byte, error)
	ReadString(delim byte) (string, error)
	ReadFrom(r io.Reader) (int64, error)
	WriteTo(w io.Writer) (int64, error)
	Truncate(n int)
	Grow(n int)
	Reset()
	Len() int
	Bytes() []byte
	String() string
}

var _ bufAPI = (*bytes.Buffer)(nil)
var _ bufAPI = (*slog.PrintCtx)(nil)

type c19op struct {
	name string
	f    func(b bufAPI) string
}

func normErr(e error) string {
	if e == nil {
		return "nil"
	}
	s := e.Error()
	s = strings.ReplaceAll(s, "bytes.Buffer", "BUF")
	s = strings.ReplaceAll(s, "logg/slog.PrintCtx", "BUF")
	return "err(" + s + ")"
}

func normPanic(p any) string {
	var s string
	switch z := p.(type) {
	case error:
		s = z.Error()
	default:
		s = fmt.Sprint(p)
	}
	s = strings.ReplaceAll(s, "bytes.Buffer", "BUF")
	s = strings.ReplaceAll(s, "logg/slog.PrintCtx", "BUF")
	// runtime errors carry lengths/capacities that legitimately differ; keep the kind only
	if strings.HasPrefix(s, "runtime error:") {
		if i := strings.Index(s, "["); i > 0 {
			s = s[:i]
		}
	}
	return "PANIC(" + s + ")"
}

// scripted readers / writers for ReadFrom / WriteTo
type scriptReader struct {
	idle     int // so many reads return (0, nil) first
	chunks   [][]byte
	err      error
	neg      bool
	i        int
	withLast bool // the terminating error / EOF comes together with the last chunk
}

func (r *scriptReader) Read(p []byte) (int, error) {
	if r.neg {
		return -1, nil
	}
	if r.idle > 0 {
		r.idle--
		return 0, nil
	}
	if r.i >= len(r.chunks) {
		if r.err != nil {
			return 0, r.err
		}
		return 0, io.EOF
	}
	n := copy(p, r.chunks[r.i])
	if n < len(r.chunks[r.i]) {
		r.chunks[r.i] = r.chunks[r.i][n:]
	} else {
		r.i++
		if r.withLast && r.i >= len(r.chunks) {
			if r.err != nil {
				return n, r.err
			}
			return n, io.EOF
		}
	}
	return n, nil
}

type scriptWriter struct {
	mode string // full | short | err | over
	got  []byte
}

func (w *scriptWriter) Write(p []byte) (int, error) {
	switch w.mode {
	case "full":
		w.got = append(w.got, p...)
		return len(p), nil
	case "short":
		n := len(p) / 2
		w.got = append(w.got, p[:n]...)
		return n, nil
	case "err":
		n := len(p) / 2
		w.got = append(w.got, p[:n]...)
		return n, errors.New("boom")
	case "over":
		return len(p) + 1, nil
	}
	return 0, nil
}

func rep(s string, n int) string { return strings.Repeat(s, n)[:n] }

func c19ops(thorough bool) []c19op {
	var ops []c19op
	add := func(name string, f func(b bufAPI) string) { ops = append(ops, c19op{name, f}) }
	guard := func(f func() string) (s string) {
		defer func() {
			if p := recover(); p != nil {
				s = normPanic(p)
			}
		}()
		return f()
	}
	datas := []string{"", "x", "h\xc3\xa9\n", rep("abcdefg\n", 70), rep("0123456789", 1100), "\xc0\x80\xe0\x80\x80\xc1\xbf\xe9Z\xed\xa0\x80"} // the last one: over-long forms, a lone 0xE9, a surrogate
	for _, d := range datas {
		d := d
		add(fmt.Sprintf("Write(len %d)", len(d)), func(b bufAPI) string {
			return guard(func() string { n, e := b.Write([]byte(d)); return fmt.Sprint(n, normErr(e)) })
		})
	}
	for _, d := range []string{"", "y", "\xe4\xb8\x96\xf0\x9f\x98\x80", rep("q\n", 70)} {
		d := d
		add(fmt.Sprintf("WriteString(len %d)", len(d)), func(b bufAPI) string {
			return guard(func() string { n, e := b.WriteString(d); return fmt.Sprint(n, normErr(e)) })
		})
	}
	for _, c := range []byte{'z', '\n', 0xff} {
		c := c
		add(fmt.Sprintf("WriteByte(%#x)", c), func(b bufAPI) string {
			return guard(func() string { return normErr(b.WriteByte(c)) })
		})
	}
	for _, r := range []rune{'a', 0xe9, 0x4e16, 0x1f600, -1, 0xd800, 0x110000} {
		r := r
		add(fmt.Sprintf("WriteRune(%#x)", r), func(b bufAPI) string {
			return guard(func() string { n, e := b.WriteRune(r); return fmt.Sprint(n, normErr(e)) })
		})
	}
	for _, l := range []int{0, 1, 4, 2000} {
		l := l
		add(fmt.Sprintf("Read(len %d)", l), func(b bufAPI) string {
			return guard(func() string {
				p := make([]byte, l)
				n, e := b.Read(p)
				if n < 0 || n > l {
					return fmt.Sprint("bad n ", n)
				}
				return fmt.Sprintf("%d %q %s", n, p[:n], normErr(e))
			})
		})
	}
	add("ReadByte", func(b bufAPI) string {
		return guard(func() string { c, e := b.ReadByte(); return fmt.Sprint(c, normErr(e)) })
	})
	add("ReadRune", func(b bufAPI) string {
		return guard(func() string { r, n, e := b.ReadRune(); return fmt.Sprint(r, n, normErr(e)) })
	})
	add("UnreadByte", func(b bufAPI) string { return guard(func() string { return normErr(b.UnreadByte()) }) })
	add("UnreadRune", func(b bufAPI) string { return guard(func() string { return normErr(b.UnreadRune()) }) })
	for _, n := range []int{-1, 0, 1, 3, 100, math.MaxInt, math.MaxInt - 1} {
		n := n
		add(fmt.Sprintf("Next(%d)", n), func(b bufAPI) string {
			return guard(func() string { return fmt.Sprintf("%q", b.Next(n)) })
		})
	}
	for _, d := range []byte{'\n', 'Z', 0xe9, 0x80} {
		d := d
		add(fmt.Sprintf("ReadBytes(%q)", d), func(b bufAPI) string {
			return guard(func() string {
				l, e := b.ReadBytes(d)
				c19keep[b] = append(c19keep[b], l) // the slice itself, not a copy
				return fmt.Sprintf("%q %s", l, normErr(e))
			})
		})
		add(fmt.Sprintf("ReadString(%q)", d), func(b bufAPI) string {
			return guard(func() string { l, e := b.ReadString(d); return fmt.Sprintf("%q %s", l, normErr(e)) })
		})
	}
	type rf struct {
		name string
		mk   func() *scriptReader
	}
	for _, r := range []rf{
		{"empty", func() *scriptReader { return &scriptReader{} }},
		{"3 bytes", func() *scriptReader { return &scriptReader{chunks: [][]byte{[]byte("r\xc3\xa9")}} }},
		{"600 bytes in 2 chunks", func() *scriptReader {
			return &scriptReader{chunks: [][]byte{[]byte(rep("R", 300)), []byte(rep("S\n", 300))}}
		}},
		{"error after 2", func() *scriptReader {
			return &scriptReader{chunks: [][]byte{[]byte("ab")}, err: errors.New("rd-fail")}
		}},
		{"negative count", func() *scriptReader { return &scriptReader{neg: true} }},
		{"2 bytes, then an error that wraps io.EOF", func() *scriptReader {
			return &scriptReader{chunks: [][]byte{[]byte("ab")}, err: fmt.Errorf("connection lost: %w", io.EOF)}
		}},
		{"2 bytes, then io.EOF joined with another error", func() *scriptReader {
			return &scriptReader{chunks: [][]byte{[]byte("cd")}, err: errors.Join(errors.New("rd-fail"), io.EOF)}
		}},
		{"100 empty reads, then 16 bytes", func() *scriptReader {
			return &scriptReader{idle: 100, chunks: [][]byte{[]byte("alpha,beta,gamma")}}
		}},
		{"4 bytes together with EOF", func() *scriptReader {
			return &scriptReader{chunks: [][]byte{[]byte("ab"), []byte("last")}, withLast: true}
		}},
		{"3 bytes together with an error", func() *scriptReader {
			return &scriptReader{chunks: [][]byte{[]byte("xyz")}, err: errors.New("rd-fail"), withLast: true}
		}},
	} {
		r := r
		add("ReadFrom("+r.name+")", func(b bufAPI) string {
			return guard(func() string { n, e := b.ReadFrom(r.mk()); return fmt.Sprint(n, normErr(e)) })
		})
	}
	for _, m := range []string{"full", "short", "err", "over"} {
		m := m
		add("WriteTo("+m+")", func(b bufAPI) string {
			return guard(func() string {
				w := &scriptWriter{mode: m}
				n, e := b.WriteTo(w)
				return fmt.Sprintf("%d %s %q", n, normErr(e), w.got)
			})
		})
	}
	for _, n := range []int{-1, 0, 1, 2, -100, -101, -102, -103} { // -100 => Len(), -101 => Len()+1, -102 => Len()-1, -103 => Len()-4
		n := n
		name := fmt.Sprintf("Truncate(%d)", n)
		if n == -100 {
			name = "Truncate(Len)"
		} else if n == -101 {
			name = "Truncate(Len+1)"
		} else if n == -102 {
			name = "Truncate(Len-1)"
		} else if n == -103 {
			name = "Truncate(Len-4)"
		}
		add(name, func(b bufAPI) string {
			return guard(func() string {
				k := n
				if n == -100 {
					k = b.Len()
				} else if n == -101 {
					k = b.Len() + 1
				} else if n == -102 {
					k = b.Len() - 1
				} else if n == -103 {
					k = b.Len() - 4
				}
				b.Truncate(k)
				return "ok"
			})
		})
	}
	for _, n := range []int{-1, 0, 1, 64, 2000} {
		n := n
		add(fmt.Sprintf("Grow(%d)", n), func(b bufAPI) string {
			return guard(func() string { b.Grow(n); return "ok" })
		})
	}
	for _, n := range []int{math.MaxInt / 2, 1 << 60, math.MaxInt - 1024} {
		n := n
		add(fmt.Sprintf("Grow(%d)", n), func(b bufAPI) string {
			return guard(func() string { b.Grow(n); return "ok" })
		})
	}
	add("String", func(b bufAPI) string { return guard(func() string { return fmt.Sprintf("%q", b.String()) }) })
	add("Reset", func(b bufAPI) string { return guard(func() string { b.Reset(); return "ok" }) })
	// Len/Bytes/String are observed after every step anyway.
	return ops
}

// c19keep holds, per buffer object, the slices ReadBytes returned (they are documented as private copies).
var c19keep = map[bufAPI][][]byte{}

func c19kept(b bufAPI) string {
	var sb strings.Builder
	for _, l := range c19keep[b] {
		fmt.Fprintf(&sb, "%q,", l)
	}
	return sb.String()
}

type c19root struct {
	name string
	mk   func() (bufAPI, bufAPI) // (impl, ref)
}

func c19roots() []c19root {
	return []c19root{
		{"NewPrintCtx(nil)", func() (bufAPI, bufAPI) { return slog.NewPrintCtx(nil), bytes.NewBuffer(nil) }},
		{"NewPrintCtxString(héllo\\n)", func() (bufAPI, bufAPI) {
			return slog.NewPrintCtxString("h\xc3\xa9llo\n"), bytes.NewBufferString("h\xc3\xa9llo\n")
		}},
		{"NewPrintCtxString(70-byte string built at run time; the string itself is watched)", func() (bufAPI, bufAPI) {
			src := strings.Repeat("0123456789", 7) // heap memory
			pristine := string(append([]byte(nil), src...))
			a := slog.NewPrintCtxString(src)
			c19src[a] = c19watched{&src, pristine}
			return a, bytes.NewBufferString(pristine)
		}},
		{"pooled shape (len 0, cap 1024)", func() (bufAPI, bufAPI) {
			return slog.VerifNewPooledShapePC(), bytes.NewBuffer(make([]byte, 0, 1024))
		}},
		{"off>0 (8 written, 3 read)", func() (bufAPI, bufAPI) {
			a, b := slog.NewPrintCtx(nil), bytes.NewBuffer(nil)
			a.WriteString("abc\ndefg")
			b.WriteString("abc\ndefg")
			a.Next(3)
			b.Next(3)
			return a, b
		}},
		{"full 70-byte buffer, 4 read, then one byte written (the write had to make room: slide or reallocate)", func() (bufAPI, bufAPI) {
			mk := func() []byte { p := make([]byte, 70, 70); copy(p, rep("k", 70)); return p } // capacity exactly 70
			a, b := slog.NewPrintCtx(mk()), bytes.NewBuffer(mk())
			a.Next(4)
			b.Next(4)
			a.WriteByte('w')
			b.WriteByte('w')
			return a, b
		}},
		{"NewPrintCtx(70-byte slice)", func() (bufAPI, bufAPI) {
			return slog.NewPrintCtx([]byte(rep("k", 70))), bytes.NewBuffer([]byte(rep("k", 70)))
		}},
	}
}

// strings handed to NewPrintCtxString: a Go string never changes
type c19watched struct {
	s        *string
	pristine string
}

var c19src = map[bufAPI]c19watched{}

type c19case struct {
	Root int      `json:"root"`
	Ops  []int    `json:"ops"`
	Text []string `json:"text,omitempty"`
}

var c19readable, c19readableKnown bool

func c19stateReadable(pc *slog.PrintCtx) bool {
	if !c19readableKnown {
		c19readable = !slog.VerifTry(func() { slog.VerifPCState(pc) })
		c19readableKnown = true
	}
	return c19readable
}

func c19refHidden(ref bufAPI) (roff, rlast int64) {
	roff, rlast = -1, -1
	if rb, ok := ref.(*bytes.Buffer); ok {
		rv := reflect.ValueOf(rb).Elem()
		if f := rv.FieldByName("off"); f.IsValid() && f.CanInt() {
			roff = f.Int()
		}
		if f := rv.FieldByName("lastRead"); f.IsValid() && f.CanInt() {
			rlast = f.Int()
		}
	}
	return
}

func c19key(impl bufAPI, ref bufAPI) string {
	pc := impl.(*slog.PrintCtx)
	if !c19stateReadable(pc) {
		// the tree under check stores the buffer in fields the harness cannot read: the key is what the exported interface shows
		// plus the reference's hidden state (a coarser merge - fewer states are expanded, every comparison stays what it is)
		roff, rlast := c19refHidden(ref)
		return fmt.Sprintf("visible|%d|%x|%x|%d|%d", impl.Len(), impl.Bytes(), ref.Bytes(), roff, rlast)
	}
	content, off, ln, cp, lr := slog.VerifPCState(pc)
	// the reference's hidden state is part of the key as well: two histories may leave the implementation in one state and
	// bytes.Buffer in two (what a later UnreadByte / UnreadRune does depends on it)
	roff, rlast := int64(-1), int64(-1)
	if rb, ok := ref.(*bytes.Buffer); ok {
		rv := reflect.ValueOf(rb).Elem()
		if f := rv.FieldByName("off"); f.IsValid() && f.CanInt() {
			roff = f.Int()
		}
		if f := rv.FieldByName("lastRead"); f.IsValid() && f.CanInt() {
			rlast = f.Int()
		}
	}
	return fmt.Sprintf("%d|%d|%d|%d|%x|%x|%d|%d", off, ln, cp, lr, content[:ln], ref.Bytes(), roff, rlast)
}

// c19replay replays a history in lock-step; returns the violation (if any) and
// the final key.
func c19replay(roots []c19root, ops []c19op, cas c19case) (*Violation, string) {
	impl, ref := roots[cas.Root].mk()
	defer func() { delete(c19keep, impl); delete(c19keep, ref); delete(c19src, impl) }()
	for i, oi := range cas.Ops {
		op := ops[oi]
		ra := op.f(impl)
		rb := op.f(ref)
		observe := func(b bufAPI) (s string) {
			defer func() {
				if p := recover(); p != nil {
					s = "observer " + normPanic(p)
				}
			}()
			if i == len(cas.Ops)-1 {
				// String() is asked once, after the last step (it is also an operation of its own): an
				// implementation may not rely on being asked after every change
				return fmt.Sprintf("Len=%d Bytes=%q String=%q", b.Len(), b.Bytes(), b.String())
			}
			return fmt.Sprintf("Len=%d Bytes=%q", b.Len(), b.Bytes())
		}
		obsA := ra + " | " + observe(impl)
		obsB := rb + " | " + observe(ref)
		if e, ok := c19src[impl]; ok && *e.s != e.pristine {
			obsA += fmt.Sprintf(" | the string that was given to NewPrintCtxString now reads %q", *e.s)
		}
		// results that are private copies (ReadBytes / ReadString) must stay what they were
		if keepA, keepB := c19kept(impl), c19kept(ref); keepA != keepB {
			obsA += " | earlier ReadBytes results now " + keepA
			obsB += " | earlier ReadBytes results now " + keepB
		}
		if obsA != obsB {
			cc := cas
			cc.Ops = cas.Ops[:i+1]
			cc.Text = nil
			for _, o := range cc.Ops {
				cc.Text = append(cc.Text, ops[o].name)
			}
			return mkViolation("C19|diverges|"+roots[cas.Root].name+"|"+strings.Join(cc.Text, ";"), "lockstep-equal",
				fmt.Sprintf("after %s: PrintCtx -> %.300s ; bytes.Buffer -> %.300s", op.name, obsA, obsB), cc), ""
		}
	}
	// the canonical state merges histories with the same buffer tuple. That is only sound while the tuple is
	// the whole state; to keep an implementation honest that remembers what String() returned, the window
	// (read offset, length) at the time of the last String() call is part of the key
	lastString := ""
	{
		i2, r2 := roots[cas.Root].mk()
		for _, oi := range cas.Ops {
			if ops[oi].name == "String" {
				lastString = fmt.Sprintf("|S@%d", len(r2.Bytes()))
			}
			ops[oi].f(r2)
			_ = i2
		}
		delete(c19keep, i2)
		delete(c19keep, r2)
		delete(c19src, i2)
	}
	return nil, c19key(impl, ref) + lastString
}

func init() {
	register(&CheckDef{ID: "C19", Run: c19run, Replay: func(raw json.RawMessage) *Violation {
		var cas c19case
		if json.Unmarshal(raw, &cas) != nil {
			return nil
		}
		v, _ := c19replay(c19roots(), c19ops(true), cas)
		return v
	}})
}

func c19run(c *Ctx) {
	ops := c19ops(c.Thorough())
	roots := c19roots()
	maxDepth := 3
	if c.Thorough() {
		maxDepth = 5
	}
	c.Info("ops", len(ops))
	c.Info("roots", len(roots))
	c.Flag("exhaustive", true)
	// BFS; sharding: level-1 successors (root,op) are distributed over shards.
	type node struct{ cas c19case }
	seen := map[string]struct{}{}
	var frontier []c19case
	for ri := range roots {
		cas := c19case{Root: ri}
		_, k := c19replay(roots, ops, cas)
		seen[k] = struct{}{}
		frontier = append(frontier, cas)
	}
	c.Count("states", int64(len(frontier)))
	depthDone := 0
	for depth := 1; depth <= maxDepth; depth++ {
		var next []c19case
		for _, h := range frontier {
			for oi := range ops {
				if depth == 1 && !c.Mine(h.Root*len(ops)+oi) {
					continue
				}
				cas := c19case{Root: h.Root, Ops: append(append([]int{}, h.Ops...), oi)}
				v, k := c19replay(roots, ops, cas)
				c.Count("transitions", 1)
				if v != nil {
					c.Violate(v)
					continue
				}
				c.Outcome(k)
				if _, ok := seen[k]; ok {
					continue
				}
				seen[k] = struct{}{}
				c.Count("states", 1)
				next = append(next, cas)
			}
			if c.Expired() {
				break
			}
		}
		if c.Expired() {
			break
		}
		depthDone = depth
		frontier = next
		if len(next) == 0 {
			c.Flag("fixpoint", true)
			break
		}
		if len(next) > 0 && depth == 2 {
			x := next[len(next)/2]
			for _, o := range x.Ops {
				x.Text = append(x.Text, ops[o].name)
			}
			c.Sample(map[string]any{"root": roots[x.Root].name, "history": x.Text})
		}
	}
	c.Max("depth_completed", int64(depthDone))
	c.Assume("capacity (Cap/Available) is not compared: the property lists results, errors/panics and remaining contents only")
}
