package main

// C04 - JSON mode: one line of valid JSON that decodes to what was logged.
// Shape I in layers (DESIGN.md 4/C04), oracle = encoding/json based jsonx.

import (
	"encoding/json"
	"fmt"
	"strings"
	"time"
	"unicode/utf8"

	"github.com/hedzr/logg/slog"

	"verif/oracle/jsonx"
)

var reservedKeys = map[string]bool{"time": true, "level": true, "msg": true, "caller": true, "logger": true}

// checkJSONRecord is the C04 oracle for one emitted record.
func checkJSONRecord(rc recCase, payloads []string, pan string) (clause, detail string) {
	if pan != "" {
		return "call-returns", "the call panicked: " + firstLine(pan)
	}
	if len(payloads) != 1 {
		return "one-write", fmt.Sprintf("%d Write calls for one record", len(payloads))
	}
	p := payloads[0]
	obj, err := jsonx.DecodeLine([]byte(p))
	if err != nil {
		return "valid-json-line", fmt.Sprintf("%v; payload %.300q", err, p)
	}
	// fixed members
	tv, ok := obj.Get("time")
	ts, isStr := tv.(string)
	if !ok || !isStr {
		return "time-member", fmt.Sprintf("no string member \"time\" in %.200q", p)
	}
	if _, err := time.Parse(refDefaultLayout(), ts); err != nil {
		return "time-member", fmt.Sprintf("time %q does not parse with the active layout %q", ts, refDefaultLayout())
	}
	lv, _ := obj.Get("level")
	if r := jsonStringIs(lv, slog.Level(rc.Level).String()); r != "" {
		return "level-member", "level: " + r
	}
	mv, ok := obj.Get("msg")
	if !ok {
		return "msg-member", "no member \"msg\""
	}
	if r := jsonStringIs(mv, rc.msg()); r != "" {
		return "msg-member", "msg: " + r
	}
	ln, hasLogger := obj.Get("logger")
	if rc.Named {
		if r := jsonStringIs(ln, rc.loggerName()); r != "" {
			return "logger-member", "logger: " + r
		}
	} else if hasLogger {
		return "logger-member", fmt.Sprintf("unnamed logger printed a logger member %v", ln)
	}
	cv, hasCaller := obj.Get("caller")
	if rc.Caller {
		co, ok := cv.(*jsonx.Obj)
		if !ok {
			return "caller-member", fmt.Sprintf("caller is not an object: %v", cv)
		}
		for _, k := range []string{"file", "line", "function"} {
			if _, ok := co.Get(k); !ok {
				return "caller-member", "caller object lacks member " + k
			}
		}
	} else if hasCaller {
		return "caller-member", "caller member present although the caller flag is off"
	}
	// attributes
	expect := map[string]bool{"time": true, "level": true, "msg": true}
	if rc.Named {
		expect["logger"] = true
	}
	if rc.Caller {
		expect["caller"] = true
	}
	if cl, d := checkJSONMembers(obj, rc.Attrs, expect, ""); cl != "" {
		return cl, d + fmt.Sprintf("; payload %.300q", p)
	}
	return "", ""
}

func keyVariants(k string) []string {
	if utf8.ValidString(k) {
		return []string{k}
	}
	return []string{k, toValid(k), toValidPerByte(k)}
}

func checkJSONMembers(obj *jsonx.Obj, attrs []attrNode, expect map[string]bool, path string) (string, string) {
	for _, n := range attrs {
		k := n.key()
		var v any
		found := false
		for _, kv := range keyVariants(k) {
			if x, ok := obj.Get(kv); ok {
				v, found = x, true
				expect[kv] = true
				break
			}
		}
		if n.IsG {
			if !found {
				if len(n.G) == 0 {
					continue // an empty group may be omitted
				}
				return "attr-member", fmt.Sprintf("group %s%q has no member in the record", path, k)
			}
			sub, ok := v.(*jsonx.Obj)
			if !ok {
				return "group-object", fmt.Sprintf("group %s%q is not a nested object but %T %v", path, k, v, v)
			}
			if cl, d := checkJSONMembers(sub, n.G, map[string]bool{}, path+k+"."); cl != "" {
				return cl, d
			}
			continue
		}
		if !found {
			return "attr-member", fmt.Sprintf("attribute %s%q (%s) has no member in the record", path, k, n.V)
		}
		vs := valSpecByName(n.V)
		if r := vs.JSON(v); r != "" {
			return "attr-value", fmt.Sprintf("attribute %s%q (%s): %s", path, k, n.V, r)
		}
	}
	for _, k := range obj.Keys {
		if !expect[k] {
			return "no-extra-members", fmt.Sprintf("unexpected member %s%q in the record", path, k)
		}
	}
	return "", ""
}

func c04eval(rc recCase) *Violation {
	payloads, pan := emitRecord(rc)
	clause, detail := checkJSONRecord(rc, payloads, pan)
	if clause == "" {
		return nil
	}
	return mkViolation("", clause, detail, rc)
}

// fmtEvalMin evaluates rc with eval; on a violation minimises the case and
// derives the signature from the minimal case.
func fmtEvalMin(id string, rc recCase, eval func(recCase) *Violation) *Violation {
	v := eval(rc)
	if v == nil {
		return nil
	}
	min := minimizeRec(rc, v.Clause, eval)
	mv := eval(min)
	if mv == nil || mv.Clause != v.Clause {
		min, mv = rc, v
	}
	return mkViolation(fmt.Sprintf("%s|%s|%s|%s", id, mv.Clause, min.Format, recSig(min)), mv.Clause, mv.Detail, min)
}

// ---------------------------------------------------------------- layers

var c04keys = []string{"k", "a.b", "a b", `a"b`, `a\b`, "é", "a\nb", strings.Repeat("K", 64), "a\x01b", "a\xffb", "", strings.Repeat("long-key-", 40), "17"}

// representatives for attribute lists (L3)
func listReps(thorough bool) []func(key string) attrNode {
	reps := []func(key string) attrNode{
		func(k string) attrNode { return leaf(k, "int:-1") },
		func(k string) attrNode { return leaf(k, "string:space") },
		func(k string) attrNode { return group(k, leaf("x", "int:-1")) },
		func(k string) attrNode { return group(k) },
		func(k string) attrNode {
			return group(k, leaf("y", "string:plain"), group("h", leaf("z", "bool:true")))
		},
		func(k string) attrNode { return leaf(k, "error:plain") },
		func(k string) attrNode { return leaf(k, "nil") },
		func(k string) attrNode { return leaf(k, "bytes:ascii") },
		func(k string) attrNode { return leaf(k, "[]string:3") },
		func(k string) attrNode { return leaf(k, "time:utc-ns") },
		func(k string) attrNode { return leaf(k, "time:utc-ns-seen-from-+05:30") }, // the same instant in another zone
	}
	if thorough {
		reps = append(reps,
			func(k string) attrNode { return leaf(k, "duration:1500000000") },
			func(k string) attrNode { return leaf(k, "struct") },
			func(k string) attrNode { return group(k, group("e")) },
			func(k string) attrNode { return leaf(k, "float64:NaN") },
		)
	}
	return reps
}

// group shapes (L4): depth <= 3, <= 2 members per level
func groupShapes() [][]attrNode {
	l := func(k string) attrNode { return leaf(k, "int:-1") }
	s := func(k string) attrNode { return leaf(k, "string:quote") }
	shapes := []attrNode{
		group("g"),
		group("g", l("x")),
		group("g", l("x"), s("y")),
		group("g", group("h")),
		group("g", group("h", l("x"))),
		group("g", group("h", l("x")), l("y")),
		group("g", l("a"), group("h", l("x"))),
		group("g", group("h", group("i", l("x")))),
		group("g", group("h", group("i", l("x"), s("y")), l("z")), l("w")),
		group("g", group("h1", l("x")), group("h2", l("x"))),
		group("g", group("h", group("i"))),
		group("g", l("c"), l("b"), s("a"), l("e"), l("d")), // members out of order, more of them than attributes around the group
		group("g", l("a1"), group("h", l("a2"), group("i", l("a3"), group("j", l("a4"), group("k", l("a5"), s("a6")), l("z4")), l("z3")), l("z2")), l("z1")), // six levels deep
	}
	var out [][]attrNode
	// one group OBJECT under two different parents of the same record
	ep := group("endpoint", l("port"), s("host"))
	ep.Ref = "ep"
	out = append(out, []attrNode{group("src", ep), group("dst", ep), l("z")})
	out = append(out, []attrNode{ep, group("via", ep, l("n"))})
	for _, g := range shapes {
		out = append(out, []attrNode{g})                 // only
		out = append(out, []attrNode{g, l("z")})         // first (sorts before z)
		out = append(out, []attrNode{l("a"), g})         // last
		out = append(out, []attrNode{l("a"), g, s("z")}) // middle
		out = append(out, []attrNode{l("z"), g, s("a")}) // unsorted input
		g2 := g
		g2.K = qk("g2")
		out = append(out, []attrNode{g, l("g1"), g2, l("g3")}) // two groups interleaved with leaves
	}
	return out
}

func fmtCases(format string, keys []string, thorough bool, emit func(rc recCase)) {
	base := recCase{Format: format, MsgQ: qk("m"), Level: int(slog.InfoLevel)}
	variants := func(rc recCase) {
		for _, caller := range []bool{false, true} {
			for _, named := range []bool{false, true} {
				c := rc.clone()
				c.Caller, c.Named = caller, named
				emit(c)
			}
		}
	}
	// L1: messages
	for b := 0; b < 256; b++ {
		rc := base
		rc.Layer = "L1-msg-byte"
		rc.MsgQ = qk("a" + string([]byte{byte(b)}) + "b")
		emit(rc)
	}
	for _, x := range criticalStrings {
		for _, y := range criticalStrings {
			rc := base
			rc.Layer = "L1-msg-pair"
			rc.MsgQ = qk("a" + x + y + "b")
			emit(rc)
		}
	}
	for _, m := range []string{"", " ", strings.Repeat("0123456789", 200), strings.Repeat("seventy kilobytes of text \u00e9\n", 2400), "\xff", "\"", "\\", `","level":"panic","x":"`, "tail\\", "\xe4\xb8"} {
		rc := base
		rc.Layer = "L1-msg-special"
		rc.MsgQ = qk(m)
		variants(rc)
	}
	// L8: severities - every built-in one, an unregistered one, and registered ones whose titles are free text
	for _, lv := range recSeverities {
		rc := base
		rc.Layer = "L8-severities"
		rc.Level = int(lv)
		rc.Attrs = []attrNode{leaf("k", "int:-1")}
		variants(rc)
	}
	// L2: one attribute: key x value
	for _, k := range keys {
		for i := range valSpecs {
			rc := base
			rc.Layer = "L2-one-attr"
			rc.Attrs = []attrNode{leaf(k, valSpecs[i].Name)}
			if k == "k" {
				variants(rc)
			} else {
				emit(rc)
			}
			if valSpecs[i].Plain || thorough {
				// the same key and value again, after other records carried them at other positions
				c := rc.clone()
				c.Layer = "L2c-after-prior-records"
				c.Prior = true
				emit(c)
			}
		}
	}
	// L2b (thorough): two values side by side
	if thorough {
		for i := range valSpecs {
			for j := range valSpecs {
				rc := base
				rc.Layer = "L2b-two-attrs"
				rc.Attrs = []attrNode{leaf("k1", valSpecs[i].Name), leaf("k2", valSpecs[j].Name)}
				emit(rc)
			}
		}
	}
	// L3: attribute lists
	reps := listReps(thorough)
	maxLen := 3
	if thorough {
		maxLen = 4
	}
	keyNames := []string{"b", "d", "a", "c"} // positions get out-of-order keys
	var rec func(prefix []attrNode)
	rec = func(prefix []attrNode) {
		if len(prefix) > 0 {
			rc := base
			rc.Layer = "L3-list"
			rc.Attrs = cloneNodes(prefix)
			rc.Caller = len(prefix)%2 == 0
			emit(rc)
		}
		if len(prefix) == maxLen {
			return
		}
		for _, r := range reps {
			rec(append(prefix, r(keyNames[len(prefix)])))
		}
	}
	rec(nil)
	// L4: group shapes and positions
	for _, attrs := range groupShapes() {
		rc := base
		rc.Layer = "L4-groups"
		rc.Attrs = attrs
		variants(rc)
		c := rc.clone()
		c.Layer = "L4c-groups-after-prior-records"
		c.Prior = true
		emit(c)
	}
	// L7: the explicit-timestamp entry point without a program counter, caller field on and off
	if format != "color" {
		for _, attrs := range [][]attrNode{nil, {leaf("k", "int:-1")}, {group("g", leaf("x", "string:quote")), leaf("z", "bool:true")}} {
			rc := base
			rc.Layer = "L7-no-program-counter"
			rc.Entry = "WriteThru-pc0"
			rc.Attrs = attrs
			variants(rc)
		}
	}
	// L6b: an anonymous child of a named logger (all formats): the logger field is the name the child reports
	for _, attrs := range [][]attrNode{nil, {leaf("k", "int:-1")}} {
		rc := base
		rc.Layer = "L6b-anonymous-child"
		rc.Named = true
		rc.NameQ = recAnonChild
		rc.Attrs = attrs
		emit(rc)
	}
	// L6: logger names are string-like values too
	if format != "color" {
		for _, nm := range []string{`api" role="admin`, "a\nb", `a\b`, "a b", "é\u2028", "a\xffb", "a\x1b[31mb", "a\tb\x01", `","level":"panic`, "k=v"} {
			rc := base
			rc.Layer = "L6-logger-name"
			rc.Named = true
			rc.NameQ = qk(nm)
			rc.Attrs = []attrNode{leaf("k", "int:-1")}
			emit(rc)
		}
	}
	// L5: every value two groups deep, with members before and after it at every level
	li := func(k string) attrNode { return leaf(k, "int:-1") }
	for i := range valSpecs {
		rc := base
		rc.Layer = "L5-value-in-nested-groups"
		rc.Attrs = []attrNode{li("a"), group("g", li("p"), group("h", li("u"), leaf("v", valSpecs[i].Name), li("w")), li("q")), li("z")}
		emit(rc)
	}
}

func init() {
	register(&CheckDef{ID: "C04", Run: func(c *Ctx) { fmtRun(c, "C04", "json", c04keys, c04eval) },
		Replay: func(raw json.RawMessage) *Violation { return fmtReplay("C04", raw, c04eval) }})
}

func fmtReplay(id string, raw json.RawMessage, eval func(recCase) *Violation) *Violation {
	var rc recCase
	if json.Unmarshal(raw, &rc) != nil {
		return nil
	}
	resetGlobals()
	return fmtEvalMin(id, rc, eval)
}

func fmtRun(c *Ctx, id, format string, keys []string, eval func(recCase) *Violation) {
	c.Flag("exhaustive", true)
	resetGlobals()
	n := 0
	layers := map[string]int64{}
	fmtCases(format, keys, c.Thorough(), func(rc recCase) {
		n++
		if !c.Mine(n) {
			return
		}
		c.Count("evaluations", 1)
		layers[rc.Layer]++
		v := fmtEvalMin(id, rc, eval)
		if v != nil {
			c.Violate(v)
			return
		}
		c.Count("distinct_nontrivial", 1)
		c.Outcome(strings.Join(lastPayloads, "|"))
		if n%997 == 0 {
			c.Sample(rc)
		}
	})
	for k, v := range layers {
		c.Count("layer_"+k, v)
	}
	c.Info("value_specs", len(valSpecs))
}
