// Command verif is the driver: it regenerates the build overlay from the
// current /repo tree, builds the worker, shards one check's exploration over
// worker processes, confirms and classifies violations, and writes evidence.
//
//	verif setup
//	verif check C07 [--tier quick|thorough]
//	verif replay <file>
package main

import (
	"encoding/json"
	"flag"
	"fmt"
	"os"
	"os/exec"
	"os/signal"
	"path/filepath"
	"regexp"
	"runtime"
	"sort"
	"strconv"
	"strings"
	"sync"
	"syscall"
	"time"

	"verif/instrument"
)

var (
	verifDir = "/verif"
	repoDir  = "/repo"
	outDir   = "" // where evidence/ and replays/ go (default: verifDir); set VERIF_OUT when checking a snapshot
)

func outBase() string {
	if outDir != "" {
		return outDir
	}
	return verifDir
}

func init() {
	if v := os.Getenv("VERIF_DIR"); v != "" {
		verifDir = v
	}
	if v := os.Getenv("VERIF_REPO"); v != "" {
		repoDir = v
	}
	if v := os.Getenv("VERIF_OUT"); v != "" {
		outDir = v
	}
}

func goEnv() []string {
	env := os.Environ()
	out := env[:0:0]
	for _, e := range env {
		k := e
		if i := strings.IndexByte(e, '='); i >= 0 {
			k = e[:i]
		}
		switch k {
		case "GOFLAGS", "GOPROXY", "GOSUMDB", "GOTOOLCHAIN", "GOWORK":
			continue
		}
		out = append(out, e)
	}
	return append(out, "GOFLAGS=-mod=mod", "GOPROXY=off", "GOSUMDB=off", "GOTOOLCHAIN=local", "GOWORK=off")
}

var scratchDirs []string
var scratchMu sync.Mutex

func mkScratch() string {
	base := os.Getenv("TMPDIR")
	if base == "" {
		base = "/var/tmp"
	}
	d, err := os.MkdirTemp(base, "verif-")
	if err != nil {
		fatal("cannot create scratch dir: %v", err)
	}
	scratchMu.Lock()
	scratchDirs = append(scratchDirs, d)
	scratchMu.Unlock()
	return d
}

func cleanup() {
	scratchMu.Lock()
	defer scratchMu.Unlock()
	for _, d := range scratchDirs {
		os.RemoveAll(d)
	}
	scratchDirs = nil
}

func fatal(f string, a ...any) {
	fmt.Fprintf(os.Stderr, "verif: "+f+"\n", a...)
	cleanup()
	os.Exit(2)
}

type buildOpts struct {
	race    bool
	dense   bool
	noShim  bool
	noInl   bool
	tags    string
	extra   map[string]string
	pkg     string // default ./worker
	outName string
	aux     string // auxiliary build: not sharded; its path is exported to the workers in this env variable
}

// buildWorker instruments /repo and builds the worker. Returns the binary path
// and the instrumentation report; err != nil means an infrastructure problem.
// buildWorker builds the instrumented worker. When the build fails inside the added export file
// (the tree under check renamed or retyped a private identifier the export file reads), the failing
// functions of that file are replaced by stubs and the build is retried: the checks that do not need
// them still run, the ones that call a stub report no verdict (see worker/main.go, "DEGRADED").
func buildWorker(scratch string, bo buildOpts) (string, *instrument.Report, error) {
	exportFile := ""
	var stubbed, dropped []string
	dropGen := map[string]bool{}
	linesOf := func(file, errText string) (lines []int) {
		re := regexp.MustCompile(regexp.QuoteMeta(file) + `:(\d+):`)
		for _, m := range re.FindAllStringSubmatch(errText, -1) {
			n, _ := strconv.Atoi(m[1])
			lines = append(lines, n)
		}
		return
	}
	skipMapOrder := map[string]bool{}
	mapOrderRe := regexp.MustCompile(`in call to verifMapOrder, type \S+ of (?:\w+\.)*(\w+) does not match`)
	for attempt := 0; ; attempt++ {
		bin, rep, err := buildWorkerOnce(scratch, bo, exportFile, dropGen, skipMapOrder)
		if rep != nil {
			rep.Stubbed, rep.DroppedGen = stubbed, dropped
		}
		if err == nil || rep == nil || rep.ExportFile == "" || attempt >= 8 {
			return bin, rep, err
		}
		progress := false
		// a table the iteration-order seam is applied to is no map in this tree: the seam is left out for it
		for _, m := range mapOrderRe.FindAllStringSubmatch(err.Error(), -1) {
			if !skipMapOrder[m[1]] {
				skipMapOrder[m[1]] = true
				dropped = append(dropped, "map-order seam for "+m[1])
				progress = true
			}
		}
		// statements of the generated globals file the compiler rejects are left out
		for _, tag := range instrument.GenLineTags(rep.GlobalsFile, linesOf(rep.GlobalsFile, err.Error())) {
			if !dropGen[tag] {
				dropGen[tag] = true
				dropped = append(dropped, tag)
				progress = true
			}
		}
		// functions of the export file the compiler rejects are replaced by stubs
		if lines := linesOf(rep.ExportFile, err.Error()); len(lines) > 0 {
			next := filepath.Join(scratch, fmt.Sprintf("zz_verif_export_stub%s_%d.go", bo.outName, attempt))
			names, serr := instrument.StubExport(rep.ExportFile, next, lines)
			if serr == nil && len(names) > 0 {
				stubbed = append(stubbed, names...)
				exportFile = next
				progress = true
			}
		}
		if !progress {
			return bin, rep, err
		}
	}
}

func buildWorkerOnce(scratch string, bo buildOpts, exportFile string, dropGen map[string]bool, skipMapOrder map[string]bool) (string, *instrument.Report, error) {
	sub := filepath.Join(scratch, "ov"+bo.outName)
	os.MkdirAll(sub, 0o755)
	rep, err := instrument.Generate(instrument.Options{RepoDir: repoDir, BuildDir: "/repo", VerifDir: verifDir, OutDir: sub,
		NoShim: bo.noShim, Dense: bo.dense, ExtraFiles: bo.extra, ExportFile: exportFile, DropGen: dropGen, SkipMapOrder: skipMapOrder})
	if err != nil {
		return "", nil, err
	}
	name := "w" + bo.outName
	bin := filepath.Join(scratch, name)
	tags := "verif"
	if bo.tags != "" {
		tags += "," + bo.tags
	}
	args := []string{"build", "-tags", tags, "-overlay", rep.Overlay, "-o", bin}
	if bo.race {
		args = append(args, "-race")
	}
	if bo.noInl {
		args = append(args, "-gcflags=github.com/hedzr/logg/...=-l")
	}
	pkg := bo.pkg
	if pkg == "" {
		pkg = "./worker"
	}
	args = append(args, pkg)
	cmd := exec.Command("go", args...)
	cmd.Dir = verifDir
	cmd.Env = goEnv()
	out, err := cmd.CombinedOutput()
	if err != nil {
		return "", rep, fmt.Errorf("go %s: %v\n%s", strings.Join(args, " "), err, out)
	}
	return bin, rep, nil
}

// ---------------------------------------------------------------- results

type Violation struct {
	Sig    string          `json:"sig"`
	Clause string          `json:"clause"`
	Detail string          `json:"detail"`
	Case   json.RawMessage `json:"case"`
	Count  int             `json:"count"`
	Shard  int             `json:"shard"`
	Pass   string          `json:"pass"`
	// NeedsHistory: the case does not fail alone in a fresh process but fails, deterministically, when the
	// worker shard that found it is re-run up to it (it depends on what the preceding cases left behind
	// in the library's process-wide state).
	NeedsHistory bool `json:"needs_history,omitempty"`
}

type Result struct {
	Check       string            `json:"check"`
	Shard       int               `json:"shard"`
	Counters    map[string]int64  `json:"counters"`
	Maxes       map[string]int64  `json:"maxes"`
	Flags       map[string]bool   `json:"flags"`
	Outcomes    []uint64          `json:"outcomes"`
	OutcomesCap bool              `json:"outcomes_capped"`
	Samples     []json.RawMessage `json:"samples"`
	Violations  []*Violation      `json:"violations"`
	Notes       []string          `json:"notes"`
	Assumptions []string          `json:"assumptions"`
	Info        map[string]any    `json:"info"`
	WallS       float64           `json:"wall_s"`
}

type KnownFinding struct {
	Property  string `json:"property"`
	Signature string `json:"signature"`
	Status    string `json:"status"` // known | fixed
	Commit    string `json:"commit,omitempty"`
	What      string `json:"what"`
}

func loadKnown() []KnownFinding {
	b, err := os.ReadFile(filepath.Join(verifDir, "known-findings.json"))
	if err != nil {
		return nil
	}
	var k struct {
		Findings []KnownFinding `json:"findings"`
	}
	if err := json.Unmarshal(b, &k); err != nil {
		fatal("known-findings.json: %v", err)
	}
	return k.Findings
}

// envPass: a worker pass whose process starts in another environment (what the package's init sees).
type envPass struct {
	name string
	env  []string                   // ${SCRATCH} stands for the scratch directory of the run
	prep func(scratch string) error // creates what the environment refers to
}

func (s *checkSpec) passEnv(name, scratch string) []string {
	for _, e := range s.envPasses {
		if e.name == name {
			if e.prep != nil {
				if err := e.prep(scratch); err != nil {
					fatal("environment pass %s: %v", name, err)
				}
			}
			var env []string
			for _, kv := range e.env {
				env = append(env, strings.ReplaceAll(kv, "${SCRATCH}", scratch))
			}
			return env
		}
	}
	return nil
}

type checkSpec struct {
	id            string
	level         string
	rule          string
	shards        int       // 0 = NumCPU
	gomax1        bool      // run workers with GOMAXPROCS=1
	testMode      bool      // additionally run a test-mode worker pass (thorough)
	testModeQuick bool      // ... in the quick tier too
	envPasses     []envPass // additional production-mode passes of build 0 in a different process environment
	build         func(tier string) []buildOpts
	deadlineQ     int
	deadlineT     int
	pre           func(scratch string, tier string) (map[string]string, error) // generate extra overlay files
}

func main() {
	if len(os.Args) < 2 {
		fmt.Fprintln(os.Stderr, "usage: verif setup | check <id> [--tier quick|thorough] | replay <file>")
		os.Exit(2)
	}
	sig := make(chan os.Signal, 1)
	signal.Notify(sig, syscall.SIGINT, syscall.SIGTERM)
	go func() {
		<-sig
		cleanup()
		os.Exit(130)
	}()
	switch os.Args[1] {
	case "setup":
		doSetup()
	case "check":
		fs := flag.NewFlagSet("check", flag.ExitOnError)
		tier := fs.String("tier", "", "quick|thorough")
		keep := fs.Bool("keep", false, "keep scratch dir")
		if len(os.Args) < 3 {
			fatal("check needs a property id")
		}
		id := os.Args[2]
		fs.Parse(os.Args[3:])
		t := *tier
		if t == "" {
			t = os.Getenv("VERIF_TIER")
		}
		if t == "" {
			t = "quick"
		}
		code := doCheck(id, t, *keep)
		if !*keep {
			cleanup()
		}
		os.Exit(code)
	case "overlay":
		// developer aid: generate the overlay into the given directory and print its path
		if len(os.Args) < 3 {
			fatal("overlay needs a directory")
		}
		os.MkdirAll(os.Args[2], 0o755)
		rep, err := instrument.Generate(instrument.Options{RepoDir: repoDir, BuildDir: "/repo", VerifDir: verifDir, OutDir: os.Args[2]})
		if err != nil {
			fatal("%v", err)
		}
		fmt.Println(rep.Overlay)
	case "replay":
		if len(os.Args) < 3 {
			fatal("replay needs a file")
		}
		code := doReplay(os.Args[2])
		cleanup()
		os.Exit(code)
	default:
		fatal("unknown command %q", os.Args[1])
	}
}

func doSetup() {
	t0 := time.Now()
	scratch := mkScratch()
	defer cleanup()
	// build the driver itself into /verif/bin (so that checks do not pay `go run`)
	os.MkdirAll(filepath.Join(verifDir, "bin"), 0o755)
	cmd := exec.Command("go", "build", "-o", filepath.Join(verifDir, "bin", "verif"), "./cmd/verif")
	cmd.Dir = verifDir
	cmd.Env = goEnv()
	if out, err := cmd.CombinedOutput(); err != nil {
		fatal("building driver: %v\n%s", err, out)
	}
	// warm the build cache: plain worker, race worker
	var wg sync.WaitGroup
	errs := make([]error, 2)
	for i, bo := range []buildOpts{{outName: "_plain"}, {outName: "_race", race: true, noShim: true}} {
		i, bo := i, bo
		wg.Add(1)
		go func() {
			defer wg.Done()
			_, _, errs[i] = buildWorker(scratch, bo)
		}()
	}
	wg.Wait()
	for _, e := range errs {
		if e != nil {
			fatal("setup build failed: %v", e)
		}
	}
	fmt.Printf("setup ok in %.1fs\n", time.Since(t0).Seconds())
}

func seedFromEnv() int64 {
	if s := os.Getenv("VERIF_SEED"); s != "" {
		if v, err := strconv.ParseInt(s, 10, 64); err == nil {
			return v
		}
	}
	return 0
}

type workerRun struct {
	bin      string
	args     []string
	env      []string
	testMode bool
	timeout  time.Duration
}

// runWorker executes one worker process; returns its parsed result.
func runWorker(scratch string, idx int, wr workerRun) (*Result, error) {
	out := filepath.Join(scratch, fmt.Sprintf("res_%d.json", idx))
	so := filepath.Join(scratch, fmt.Sprintf("stdout_%d", idx))
	se := filepath.Join(scratch, fmt.Sprintf("stderr_%d", idx))
	cwd := filepath.Join(scratch, fmt.Sprintf("cwd_%d", idx))
	os.MkdirAll(cwd, 0o755)
	bin := wr.bin
	args := append([]string{}, wr.args...)
	if wr.testMode {
		link := wr.bin + ".test"
		if _, err := os.Lstat(link); err != nil {
			os.Symlink(wr.bin, link)
		}
		bin = link
		args = append([]string{"-test.v"}, args...)
	}
	args = append(args, "-out", out, "-stdout-file", so, "-stderr-file", se)
	cmd := exec.Command(bin, args...)
	cmd.Dir = cwd
	fo, _ := os.Create(so)
	fe, _ := os.Create(se)
	defer fo.Close()
	defer fe.Close()
	cmd.Stdout = fo
	cmd.Stderr = fe
	cmd.Env = append(cleanEnv(), wr.env...)
	if err := cmd.Start(); err != nil {
		return nil, err
	}
	done := make(chan error, 1)
	go func() { done <- cmd.Wait() }()
	var err error
	select {
	case err = <-done:
	case <-time.After(wr.timeout):
		cmd.Process.Kill()
		<-done
		return nil, fmt.Errorf("worker %d timed out after %v", idx, wr.timeout)
	}
	if err != nil {
		tail, _ := os.ReadFile(se)
		if len(tail) > 3000 {
			tail = tail[len(tail)-3000:]
		}
		return nil, fmt.Errorf("worker %d: %v\n%s", idx, err, tail)
	}
	b, rerr := os.ReadFile(out)
	if rerr != nil {
		return nil, rerr
	}
	var r Result
	if err := json.Unmarshal(b, &r); err != nil {
		return nil, err
	}
	return &r, nil
}

func cleanEnv() []string {
	keep := []string{"PATH", "TMPDIR", "LANG"}
	var env []string
	for _, k := range keep {
		if v, ok := os.LookupEnv(k); ok {
			env = append(env, k+"="+v)
		}
	}
	return append(env, "HOME=/home/vuser", "TZ=UTC", "GOTRACEBACK=single")
}

type Evidence struct {
	PropertyID  string         `json:"property_id"`
	Tier        string         `json:"tier"`
	Seed        int64          `json:"seed"`
	Level       string         `json:"level"`
	Coverage    map[string]any `json:"coverage"`
	Assumptions []string       `json:"assumptions"`
	WallS       float64        `json:"wall_s"`
	Violations  int            `json:"violations"`
}

func doCheck(id, tier string, keep bool) int {
	t0 := time.Now()
	spec, ok := specs[id]
	if !ok {
		fatal("unknown property %q", id)
	}
	seed := seedFromEnv()
	scratch := mkScratch()
	evPath := filepath.Join(outBase(), "evidence", id+".json")
	os.MkdirAll(filepath.Dir(evPath), 0o755)

	infra := func(msg string) int {
		// infrastructure problem: never a violation
		fmt.Printf("INFRA property=%s %s\n", id, msg)
		ev := Evidence{PropertyID: id, Tier: tier, Seed: seed, Level: spec.level, WallS: time.Since(t0).Seconds(),
			Coverage: map[string]any{"evaluations": 0, "distinct_nontrivial": 0, "rule": spec.rule, "samples": []any{},
				"exhaustive": false, "infrastructure_failure": msg}}
		b, _ := json.MarshalIndent(ev, "", " ")
		os.WriteFile(evPath, b, 0o644)
		return 0
	}

	var bos []buildOpts
	if spec.build != nil {
		bos = spec.build(tier)
	} else {
		bos = []buildOpts{{}}
	}
	var extra map[string]string
	if spec.pre != nil {
		var err error
		extra, err = spec.pre(scratch, tier)
		if err != nil {
			return infra("pre-generation failed: " + err.Error())
		}
	}
	bins := make([]string, len(bos))
	var instr *instrument.Report
	for i, bo := range bos {
		if bo.outName == "" {
			bo.outName = fmt.Sprintf("_%d", i)
		}
		if bo.extra == nil {
			bo.extra = extra
		}
		bin, rep, err := buildWorker(scratch, bo)
		if err != nil {
			return infra("build failed (instrumented build of the current /repo tree): " + firstLines(err.Error(), 30))
		}
		bins[i] = bin
		if i == 0 {
			instr = rep
		}
	}

	nshards := spec.shards
	if nshards <= 0 {
		nshards = runtime.NumCPU()
	}
	deadline := spec.deadlineQ
	if tier == "thorough" {
		deadline = spec.deadlineT
	}
	if deadline == 0 {
		deadline = 100
		if tier == "thorough" {
			deadline = 900
		}
	}

	// worker passes: build i, production mode; optionally test mode
	type pass struct {
		bin      string
		testMode bool
		pass     string
	}
	var passes []pass
	var auxEnv []string
	defer func() { globalAuxEnv = nil }()
	for i, b := range bins {
		if bos[i].aux != "" {
			auxEnv = append(auxEnv, bos[i].aux+"="+b)
			continue
		}
		passes = append(passes, pass{b, false, fmt.Sprintf("b%d", i)})
	}
	globalAuxEnv = auxEnv
	if spec.testMode && (tier == "thorough" || spec.testModeQuick) {
		passes = append(passes, pass{bins[0], true, "testmode"})
	}
	for _, e := range spec.envPasses {
		passes = append(passes, pass{bins[0], false, e.name})
	}
	passByName := map[string]pass{}
	for _, p := range passes {
		passByName[p.pass] = p
	}
	var results []*Result
	var mu sync.Mutex
	var wg sync.WaitGroup
	var infraErrs []string
	sem := make(chan struct{}, runtime.NumCPU())
	idx := 0
	for _, p := range passes {
		for s := 0; s < nshards; s++ {
			idx++
			p, s, myidx := p, s, idx
			wg.Add(1)
			go func() {
				defer wg.Done()
				sem <- struct{}{}
				defer func() { <-sem }()
				env := []string{}
				if spec.gomax1 {
					env = append(env, "GOMAXPROCS=1")
				}
				env = append(env, "VERIF_PASS="+p.pass, "VERIF_BIN="+p.bin)
				env = append(env, auxEnv...)
				env = append(env, spec.passEnv(p.pass, scratch)...)
				r, err := runWorker(scratch, myidx, workerRun{bin: p.bin, testMode: p.testMode, env: env,
					args: []string{"-check", id, "-tier", tier, "-shard", strconv.Itoa(s), "-nshards", strconv.Itoa(nshards),
						"-deadline", strconv.Itoa(deadline), "-seed", strconv.FormatInt(seed, 10)},
					timeout: time.Duration(deadline)*time.Second + 120*time.Second})
				mu.Lock()
				defer mu.Unlock()
				if err != nil {
					infraErrs = append(infraErrs, err.Error())
					return
				}
				results = append(results, r)
			}()
		}
	}
	wg.Wait()

	// merge
	counters := map[string]int64{}
	maxes := map[string]int64{}
	flags := map[string]bool{}
	info := map[string]any{}
	outc := map[uint64]struct{}{}
	capped := false
	var samples []json.RawMessage
	var notes, assumptions []string
	seenNote := map[string]bool{}
	vios := map[string]*Violation{}
	sort.Slice(results, func(i, j int) bool { return results[i].Shard < results[j].Shard })
	for _, r := range results {
		for k, v := range r.Counters {
			counters[k] += v
		}
		for k, v := range r.Maxes {
			if cur, ok := maxes[k]; !ok || v > cur {
				maxes[k] = v
			}
		}
		for k, v := range r.Flags {
			if old, ok := flags[k]; ok {
				flags[k] = old && v
			} else {
				flags[k] = v
			}
		}
		for k, v := range r.Info {
			info[k] = v
		}
		for _, o := range r.Outcomes {
			outc[o] = struct{}{}
		}
		capped = capped || r.OutcomesCap
		for _, s := range r.Samples {
			if len(samples) < 8 {
				samples = append(samples, s)
			}
		}
		for _, n := range r.Notes {
			if !seenNote[n] {
				seenNote[n] = true
				notes = append(notes, n)
			}
		}
		for _, a := range r.Assumptions {
			if !seenNote["A:"+a] {
				seenNote["A:"+a] = true
				assumptions = append(assumptions, a)
			}
		}
		for _, v := range r.Violations {
			if old, ok := vios[v.Sig]; ok {
				old.Count += v.Count
				if len(v.Case) < len(old.Case) {
					old.Case, old.Detail = v.Case, v.Detail
				}
			} else {
				vv := *v
				vios[v.Sig] = &vv
			}
		}
	}
	exhaustive := true
	if v, ok := flags["exhaustive"]; ok {
		exhaustive = v
	}
	if len(infraErrs) > 0 {
		exhaustive = false
		for _, e := range infraErrs {
			notes = append(notes, "worker failure (infrastructure, not a violation): "+firstLines(e, 12))
		}
	}
	if len(results) == 0 {
		return infra("no worker produced a result: " + firstLines(strings.Join(infraErrs, "; "), 20))
	}
	for _, n := range notes {
		if strings.HasPrefix(n, "DEGRADED:") {
			// a worker used a stubbed part of the instrumentation: nothing this check observed is believed
			vios = map[string]*Violation{}
			exhaustive = false
			fmt.Printf("INFRA property=%s %s (the tree under check no longer compiles with that part of the export file; this check gives no verdict)\n", id, n)
			break
		}
	}

	// confirm candidates: replay each alone in a fresh process, 3 times
	known := loadKnown()
	var sigs []string
	for s := range vios {
		sigs = append(sigs, s)
	}
	sort.Slice(sigs, func(i, j int) bool {
		a, b := vios[sigs[i]], vios[sigs[j]]
		if len(a.Case) != len(b.Case) {
			return len(a.Case) < len(b.Case) // simplest case first
		}
		return sigs[i] < sigs[j]
	})
	var confirmed []*Violation
	unrepro := 0
	histTried := 0
	maxConfirm := 12
	for i, s := range sigs {
		v := vios[s]
		if i >= maxConfirm {
			// too many distinct signatures: confirm the first maxConfirm only, report the rest unconfirmed
			notes = append(notes, fmt.Sprintf("%d further candidate signatures not individually confirmed", len(sigs)-maxConfirm))
			break
		}
		okAll := true
		for k := 0; k < 3; k++ {
			got, err := replayCase(scratch, bins[0], id, v.Case, k, spec)
			if err != nil || !got.Violated || got.Sig != v.Sig {
				okAll = false
				break
			}
		}
		if !okAll && histTried < 4 {
			// history replay: re-run the shard that found it, twice, in fresh processes, until the signature shows up
			histTried++
			if p, ok := passByName[v.Pass]; ok {
				okHist := true
				for k := 0; k < 2 && okHist; k++ {
					idx++
					env := []string{"VERIF_PASS=" + p.pass, "VERIF_BIN=" + p.bin}
					if spec.gomax1 {
						env = append(env, "GOMAXPROCS=1")
					}
					env = append(env, auxEnv...)
					env = append(env, spec.passEnv(p.pass, scratch)...)
					r, err := runWorker(scratch, idx, workerRun{bin: p.bin, testMode: p.testMode, env: env,
						args: []string{"-check", id, "-tier", tier, "-shard", strconv.Itoa(v.Shard), "-nshards", strconv.Itoa(nshards),
							"-deadline", strconv.Itoa(deadline), "-seed", strconv.FormatInt(seed, 10), "-until-sig", v.Sig},
						timeout: time.Duration(deadline)*time.Second + 120*time.Second})
					okHist = false
					if err == nil {
						for _, rv := range r.Violations {
							if rv.Sig == v.Sig {
								okHist = true
							}
						}
					}
				}
				if okHist {
					v.NeedsHistory = true
					okAll = true
				}
			}
		}
		if okAll {
			confirmed = append(confirmed, v)
		} else {
			unrepro++
			exhaustive = false
			notes = append(notes, "unreproducible candidate (machinery leak, not reported): "+v.Sig)
		}
	}

	// classify
	exit := 0
	nviol := 0
	os.MkdirAll(filepath.Join(outBase(), "replays", id), 0o755)
	for _, v := range confirmed {
		if kf := matchKnown(known, id, v.Sig); kf != nil {
			fmt.Printf("KNOWN-FINDING: property=%s %s [%s]\n", id, kf.What, v.Sig)
			continue
		}
		nviol++
		exit = 1
		rp := filepath.Join(outBase(), "replays", id, sanitize(v.Sig)+".json")
		rm := map[string]any{"property": id, "sig": v.Sig, "clause": v.Clause, "detail": v.Detail, "case": v.Case, "tier": tier}
		if v.NeedsHistory {
			rm["history"] = map[string]any{"tier": tier, "shard": v.Shard, "nshards": nshards, "pass": v.Pass, "until_sig": v.Sig,
				"note": "the case fails only after the cases that precede it in this worker shard (process-wide state left behind by the library); replay re-runs the shard up to it"}
		}
		rb, _ := json.MarshalIndent(rm, "", " ")
		os.WriteFile(rp, rb, 0o644)
		fmt.Printf("VIOLATION property=%s replay=%s\n", id, rp)
		fmt.Printf("  clause=%s sig=%s\n  %s\n", v.Clause, v.Sig, firstLines(v.Detail, 6))
		if v.NeedsHistory {
			fmt.Printf("  (depends on the cases that precede it in worker shard %d/%d: reproduced twice by re-running that shard in a fresh process)\n", v.Shard, nshards)
		}
	}

	// evidence
	cov := map[string]any{}
	for k, v := range counters {
		cov[k] = v
	}
	for k, v := range maxes {
		cov[k] = v
	}
	for k, v := range flags {
		cov[k] = v
	}
	for k, v := range info {
		cov[k] = v
	}
	cov["exhaustive"] = exhaustive
	cov["rule"] = spec.rule
	cov["distinct_outcomes"] = len(outc)
	if capped {
		cov["distinct_outcomes_note"] = "lower bound: per-worker set capped"
	}
	if _, ok := cov["evaluations"]; !ok {
		if t, ok := counters["transitions"]; ok {
			cov["evaluations"] = t
		} else {
			cov["evaluations"] = int64(0)
		}
	}
	// distinct_nontrivial is measured: the number of distinct observed outcomes (payloads, states,
	// attempt logs ... as the check's rule says), counted through a hash set; the per-case pass
	// counter of the workers is reported separately.
	if v, ok := cov["distinct_nontrivial"]; ok {
		cov["cases_checked_ok"] = v
	}
	if len(outc) > 0 {
		cov["distinct_nontrivial"] = len(outc)
	} else if _, ok := cov["distinct_nontrivial"]; !ok {
		cov["distinct_nontrivial"] = 0
	}
	var ss []any
	for _, s := range samples {
		var x any
		json.Unmarshal(s, &x)
		ss = append(ss, x)
	}
	if ss == nil {
		ss = []any{}
	}
	cov["samples"] = ss
	cov["notes"] = notes
	cov["workers"] = len(results)
	cov["candidate_signatures"] = len(sigs)
	cov["unreproducible_candidates"] = unrepro
	if instr != nil {
		cov["instrumentation"] = map[string]any{"rewritten_files": instr.Rewritten, "R1_imports": instr.R1, "R2_map_ranges": instr.R2,
			"R3_time_now": instr.R3, "R4_dense_points": instr.R4, "degraded": instr.Degraded, "stubbed_export_functions": instr.Stubbed, "package_level_variables_covered": instr.Globals, "dropped_generated_statements": instr.DroppedGen}
	}
	if _, ok := cov["states"]; ok {
		if _, ok2 := cov["traces_validated_against_impl"]; !ok2 {
			cov["traces_validated_against_impl"] = cov["transitions"]
		}
	}
	ev := Evidence{PropertyID: id, Tier: tier, Seed: seed, Level: spec.level, Coverage: cov, Assumptions: assumptions,
		WallS: time.Since(t0).Seconds(), Violations: nviol}
	if ev.Assumptions == nil {
		ev.Assumptions = []string{}
	}
	b, _ := json.MarshalIndent(ev, "", " ")
	if err := os.WriteFile(evPath, b, 0o644); err != nil {
		fatal("writing evidence: %v", err)
	}
	fmt.Printf("%s %s: evaluations=%v states=%v transitions=%v outcomes=%d exhaustive=%v violations=%d known=%d wall=%.1fs\n",
		id, tier, cov["evaluations"], cov["states"], cov["transitions"], len(outc), exhaustive, nviol, len(confirmed)-nviol, time.Since(t0).Seconds())
	return exit
}

var globalAuxEnv []string

type replayOut struct {
	Violated bool   `json:"violated"`
	Sig      string `json:"sig"`
	Clause   string `json:"clause"`
	Detail   string `json:"detail"`
}

func replayCase(scratch, bin, id string, cas json.RawMessage, k int, spec *checkSpec) (*replayOut, error) {
	cf := filepath.Join(scratch, fmt.Sprintf("replay_case_%d.json", time.Now().UnixNano()))
	os.WriteFile(cf, cas, 0o644)
	defer os.Remove(cf)
	out := cf + ".out"
	defer os.Remove(out)
	cwd := filepath.Join(scratch, "cwd_replay")
	os.MkdirAll(cwd, 0o755)
	so := filepath.Join(scratch, "replay_stdout")
	se := filepath.Join(scratch, "replay_stderr")
	fo, _ := os.Create(so)
	fe, _ := os.Create(se)
	defer fo.Close()
	defer fe.Close()
	cmd := exec.Command(bin, "-check", id, "-replay", cf, "-out", out, "-stdout-file", so, "-stderr-file", se)
	cmd.Dir = cwd
	cmd.Stdout = fo
	cmd.Stderr = fe
	cmd.Env = append(cleanEnv(), "VERIF_BIN="+bin)
	cmd.Env = append(cmd.Env, globalAuxEnv...)
	if spec.gomax1 {
		cmd.Env = append(cmd.Env, "GOMAXPROCS=1")
	}
	done := make(chan error, 1)
	if err := cmd.Start(); err != nil {
		return nil, err
	}
	go func() { done <- cmd.Wait() }()
	select {
	case err := <-done:
		if err != nil {
			return nil, err
		}
	case <-time.After(120 * time.Second):
		cmd.Process.Kill()
		<-done
		return nil, fmt.Errorf("replay timed out")
	}
	b, err := os.ReadFile(out)
	if err != nil {
		return nil, err
	}
	var r replayOut
	if err := json.Unmarshal(b, &r); err != nil {
		return nil, err
	}
	return &r, nil
}

func doReplay(file string) int {
	raw, err := os.ReadFile(file)
	if err != nil {
		fatal("%v", err)
	}
	var wrap struct {
		Property string          `json:"property"`
		Case     json.RawMessage `json:"case"`
		History  *struct {
			Tier     string `json:"tier"`
			Shard    int    `json:"shard"`
			NShards  int    `json:"nshards"`
			Pass     string `json:"pass"`
			UntilSig string `json:"until_sig"`
		} `json:"history"`
	}
	if err := json.Unmarshal(raw, &wrap); err != nil || wrap.Property == "" {
		fatal("replay file must be {\"property\":..., \"case\":...}")
	}
	spec, ok := specs[wrap.Property]
	if !ok {
		fatal("unknown property %q", wrap.Property)
	}
	scratch := mkScratch()
	var bos []buildOpts
	if spec.build != nil {
		bos = spec.build("quick")
	} else {
		bos = []buildOpts{{}}
	}
	bo := bos[0]
	bo.outName = "_0"
	if spec.pre != nil {
		bo.extra, err = spec.pre(scratch, "quick")
		if err != nil {
			fatal("pre: %v", err)
		}
	}
	bin, _, err := buildWorker(scratch, bo)
	if err != nil {
		fatal("%v", err)
	}
	if wrap.History != nil && wrap.History.UntilSig != "" {
		h := wrap.History
		env := []string{"VERIF_PASS=" + h.Pass, "VERIF_BIN=" + bin}
		if spec.gomax1 {
			env = append(env, "GOMAXPROCS=1")
		}
		env = append(env, spec.passEnv(h.Pass, scratch)...)
		r, err := runWorker(scratch, 1, workerRun{bin: bin, testMode: h.Pass == "testmode", env: env,
			args:    []string{"-check", wrap.Property, "-tier", h.Tier, "-shard", strconv.Itoa(h.Shard), "-nshards", strconv.Itoa(h.NShards), "-deadline", "3000", "-until-sig", h.UntilSig},
			timeout: 3200 * time.Second})
		if err != nil {
			fatal("history replay: %v", err)
		}
		for _, v := range r.Violations {
			if v.Sig == h.UntilSig {
				fmt.Printf("VIOLATION property=%s replay=%s\n  clause=%s sig=%s\n  %s\n", wrap.Property, file, v.Clause, v.Sig, v.Detail)
				return 1
			}
		}
		fmt.Printf("replay of %s (shard %d/%d up to the case): property %s holds\n", file, h.Shard, h.NShards, wrap.Property)
		return 0
	}
	r, err := replayCase(scratch, bin, wrap.Property, wrap.Case, 0, spec)
	if err != nil {
		fatal("replay: %v", err)
	}
	if r.Violated {
		fmt.Printf("VIOLATION property=%s replay=%s\n  clause=%s sig=%s\n  %s\n", wrap.Property, file, r.Clause, r.Sig, r.Detail)
		return 1
	}
	fmt.Printf("replay of %s: property %s holds on this case\n", file, wrap.Property)
	return 0
}

func matchKnown(known []KnownFinding, id, sig string) *KnownFinding {
	for i := range known {
		k := &known[i]
		if k.Property == id && k.Status == "known" && k.Signature == sig {
			return k
		}
	}
	return nil
}

func sanitize(s string) string {
	var sb strings.Builder
	for _, r := range s {
		switch {
		case r >= 'a' && r <= 'z', r >= 'A' && r <= 'Z', r >= '0' && r <= '9', r == '-', r == '_', r == '.':
			sb.WriteRune(r)
		default:
			sb.WriteByte('_')
		}
		if sb.Len() > 120 {
			break
		}
	}
	return sb.String()
}

func firstLines(s string, n int) string {
	lines := strings.Split(s, "\n")
	if len(lines) > n {
		lines = append(lines[:n], "...")
	}
	return strings.Join(lines, "\n")
}
