package main

// per-property driver configuration
var specs = map[string]*checkSpec{
	"C19": {id: "C19", level: "model_checking",
		rule: "BFS over histories of the ~57-op buffer alphabet from 5 roots, PrintCtx and bytes.Buffer driven in lock-step; a state is the implementation's full internal tuple (content, off, len, cap, lastRead); distinct = distinct canonical states reached"},
}
