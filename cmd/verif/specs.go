package main

// per-property driver configuration
var specs = map[string]*checkSpec{
	"C01": {id: "C01", level: "model_checking",
		rule: "BFS over histories of level/registry operations (SetLevel on any logger, package SetLevel, RegisterLevel), de-duplicated on the dump of all gating-relevant globals; in every reached state the full matrix logger level x severity x public entry point (x format) is probed against the reference admission rule; distinct = distinct (logger level, severity, debug mode, wrote) outcomes"},
	"C02": {id: "C02", level: "model_checking",
		rule: "full product per layer: (A) every argument list of length <=2 (quick) / <=3 (thorough) over 24 argument tokens x 19 entry points x 3 formats, (B) 15 messages x entry points x formats x 5 logger levels x 3 destination sets, (C) 8 flag subsets x formats x tokens x destination sets x 4 entry points; each call is issued on the real logger with recording writers and compared with the delivery reference (admission, selection, one Write, newline-terminated, identical bytes, equal to a single-destination run, blank Print = one newline); every enumerated input is distinct; distinct_outcomes = distinct payloads"},
	"C03": {id: "C03", level: "model_checking",
		rule: "BFS over histories of the 41 writer-configuration operations (methods; first step also as New(...) options) from 3 roots, de-duplicated on the logger's writer lists by identity; every transition is compared with the reference semantics of the operation, every reached state is probed with one record per severity class (9) and the per-writer deliveries (3 pool writers, parent writer, stdout, stderr) compared with the reference selection; distinct = distinct configurations reached"},
	"C04": {id: "C04", level: "model_checking",
		rule: "full product of the per-layer alphabets (L1 message bytes and critical pairs, L2 key x value kind incl. special values, L3 attribute lists over representatives, L4 group shapes x positions) x caller on/off x named/unnamed logger; every record is emitted by the real logger in JSON mode and decoded with the encoding/json based oracle; every enumerated input is distinct; distinct_outcomes = distinct payloads"},
	"C05": {id: "C05", level: "model_checking",
		rule: "the C04 layered product with legal logfmt keys, emitted by the real logger in logfmt mode in a production-mode process and parsed by the independent tokenizer (+ strconv.Unquote); every enumerated input is distinct; distinct_outcomes = distinct payloads"},
	"C06": {id: "C06", level: "model_checking", testMode: true,
		rule: "full product per layer: (A) 15 severities x level-tag widths 1..5 x minimal widths {16,36,60} x 28 messages, (B) messages x 20 attribute lists x caller x named, (C) every value representative x 5 severities, (D) the C04 generic layers; each record is emitted by the real logger in colored mode, its raw payload run through the SGR terminal-state simulator (hygiene) and its escape-stripped text through the layout parser; every enumerated input is distinct; distinct_outcomes = distinct payloads"},
	"C07": {id: "C07", level: "model_checking",
		rule: "product of logger chains (depth 1..3 quick / 1..4 thorough, 5 own-attribute lists per level incl. empty, duplicate keys and an unsorted group with duplicate members) x call-site lists (sizes 0,1,2,3,12,13,14 (+64) under 8 collision patterns) x 5 context-key sets (string / Stringer / other-typed / absent keys, nil context) x inherit flag x 3 formats; every record is decoded (JSON order-preserving decode, logfmt tokenizer, colored token split) and compared, keys values and order, with the reference merge; distinct_outcomes = distinct reference results"},
	"C11": {id: "C11", level: "model_checking",
		rule: "BFS over histories of SetJSONMode/SetColorMode/WithJSONMode/WithColorMode (5 argument lists each) and New(name[, mode option]) applied to any logger of a tree that starts as root+child+sibling (3 start formats) and grows to at most 5 loggers; state = (tree shape, format of every logger), de-duplicated; after every transition the getters of every logger, and in every new state a probe record of every logger, are compared with the three-state reference machine; distinct = distinct model states reached"},
	"C19": {id: "C19", level: "model_checking",
		rule: "BFS over histories of the ~57-op buffer alphabet from 5 roots, PrintCtx and bytes.Buffer driven in lock-step; a state is the implementation's full internal tuple (content, off, len, cap, lastRead); distinct = distinct canonical states reached"},
}
