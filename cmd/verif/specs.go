package main

// per-property driver configuration
var specs = map[string]*checkSpec{
	"C01": {id: "C01", level: "model_checking",
		rule: "BFS over histories of level/registry operations (SetLevel on any logger, package SetLevel, RegisterLevel), de-duplicated on the dump of all gating-relevant globals; in every reached state the full matrix logger level x severity x public entry point (x format) is probed against the reference admission rule; distinct = distinct (logger level, severity, debug mode, wrote) outcomes"},
	"C19": {id: "C19", level: "model_checking",
		rule: "BFS over histories of the ~57-op buffer alphabet from 5 roots, PrintCtx and bytes.Buffer driven in lock-step; a state is the implementation's full internal tuple (content, off, len, cap, lastRead); distinct = distinct canonical states reached"},
}
