// Package sched is a cooperative scheduler plus a deviation-bounded DFS over
// one choice stack (thread choices, environment choices, fault choices).
//
// Only one managed goroutine ("thread") runs at a time; it hands the baton back
// at every Point. Code that is not running under an execution (Cur()==nil) sees
// every hook as a no-op / default answer, so instrumented code behaves exactly
// like the original when the explorer is idle.
package sched

import (
	"fmt"
	"runtime/debug"
)

// PointRec is one recorded choice point of an execution.
type PointRec struct {
	Kind           string // "thread:<site>" | "env:<what>" | "fault:<what>"
	N              int    // number of alternatives
	Chosen         int    // alternative taken
	TID            int    // running thread when the point was hit (-1: between threads)
	RunningEnabled bool   // for thread points: the running thread could have continued
	Env            bool   // environment/fault choice (any non-default costs 1)
}

// Execution is the record of one complete run.
type Execution struct {
	Points    []PointRec
	Panics    []string // per thread, "" if none
	Deadlock  bool
	Horizon   bool // step horizon hit
	Diverged  string
	Steps     int
	ThreadEnd []bool
}

func (x *Execution) Choices() []int {
	c := make([]int, len(x.Points))
	for i, p := range x.Points {
		c[i] = p.Chosen
	}
	return c
}

// cost of taking a non-default alternative at point i
func (p *PointRec) altCost() int {
	if p.Env {
		return 1
	}
	if p.RunningEnabled {
		return 1
	}
	return 0
}

// Cost is the accumulated deviation cost of the non-default choices in points[:n].
func (x *Execution) Cost(n int) int {
	c := 0
	for i := 0; i < n && i < len(x.Points); i++ {
		if x.Points[i].Chosen != 0 {
			c += x.Points[i].altCost()
		}
	}
	return c
}

type evKind int

const (
	evYield evKind = iota
	evDone
	evBlock
)

type event struct {
	kind evKind
	tid  int
	site string
}

type thread struct {
	id       int
	resume   chan struct{}
	done     bool
	blocked  bool // waiting for some lock: only enabled after an unblock event
	started  bool
	fn       func()
	panicMsg string
}

type run struct {
	threads  []*thread
	running  int
	prefix   []int
	exec     *Execution
	events   chan event
	maxSteps int
	aborted  bool
}

var cur *run

// Active reports whether an execution is in progress.
func Active() bool { return cur != nil }

type abortSentinel struct{}

// HorizonPanic is raised (as a panic value) by harness code that detects an
// unbounded loop (e.g. a write cascade); it is recorded as Horizon.
type HorizonPanic struct{ What string }

func (r *run) nextChoice(kind string, n int, tid int, runningEnabled, env bool) int {
	i := len(r.exec.Points)
	ch := 0
	if i < len(r.prefix) {
		ch = r.prefix[i]
		if ch < 0 || ch >= n {
			r.exec.Diverged = fmt.Sprintf("replay divergence at point %d (%s): choice %d out of range %d", i, kind, ch, n)
			ch = 0
		}
	}
	r.exec.Points = append(r.exec.Points, PointRec{Kind: kind, N: n, Chosen: ch, TID: tid, RunningEnabled: runningEnabled, Env: env})
	return ch
}

// Point is a scheduling point: the running thread offers to be preempted.
func Point(site string) {
	r := cur
	if r == nil || r.running < 0 {
		return
	}
	t := r.threads[r.running]
	// fast path: nobody else could run
	others := false
	for _, o := range r.threads {
		if o != t && !o.done && !o.blocked {
			others = true
			break
		}
	}
	if !others {
		r.step()
		return
	}
	r.events <- event{evYield, t.id, site}
	<-t.resume
	if r.aborted {
		panic(abortSentinel{})
	}
}

func (r *run) step() {
	r.exec.Steps++
	if r.maxSteps > 0 && r.exec.Steps > r.maxSteps {
		r.exec.Horizon = true
		panic(HorizonPanic{"step horizon"})
	}
}

// Block is called by a thread that cannot make progress (lock held by another
// thread); it yields and is only rescheduled after Unblock.
func Block(site string) {
	r := cur
	if r == nil || r.running < 0 {
		return
	}
	t := r.threads[r.running]
	t.blocked = true
	r.events <- event{evBlock, t.id, site}
	<-t.resume
	if r.aborted {
		panic(abortSentinel{})
	}
}

// Unblock makes every blocked thread runnable again (called on unlock).
func Unblock() {
	r := cur
	if r == nil {
		return
	}
	for _, t := range r.threads {
		t.blocked = false
	}
}

// Choose is an environment choice with n alternatives; 0 is the default answer.
func Choose(kind string, n int) int {
	r := cur
	if r == nil || n <= 1 {
		return 0
	}
	return r.nextChoice("env:"+kind, n, r.running, false, true)
}

// Execute runs the given thread bodies under the scheduler following prefix,
// then default choices. setup/teardown run outside any thread.
func Execute(prefix []int, maxSteps int, bodies []func()) *Execution {
	r := &run{prefix: prefix, exec: &Execution{}, events: make(chan event), running: -1, maxSteps: maxSteps}
	r.exec.Panics = make([]string, len(bodies))
	r.exec.ThreadEnd = make([]bool, len(bodies))
	for i, b := range bodies {
		r.threads = append(r.threads, &thread{id: i, resume: make(chan struct{}), fn: b})
	}
	cur = r
	defer func() { cur = nil }()

	for _, t := range r.threads {
		t := t
		go func() {
			<-t.resume
			defer func() {
				if p := recover(); p != nil {
					switch z := p.(type) {
					case abortSentinel:
					case HorizonPanic:
						r.exec.Horizon = true
						t.panicMsg = "horizon: " + z.What
					default:
						t.panicMsg = fmt.Sprintf("%v\n%s", p, debug.Stack())
					}
				}
				t.done = true
				r.events <- event{evDone, t.id, ""}
			}()
			if r.aborted {
				return
			}
			t.fn()
		}()
	}

	// scheduler loop
	last := -1 // thread that ran last and is still enabled, or -1
	for {
		// enabled set in canonical order: running thread first if enabled, then ascending ids
		var enabled []int
		if last >= 0 && !r.threads[last].done && !r.threads[last].blocked {
			enabled = append(enabled, last)
		}
		for _, t := range r.threads {
			if t.id != last && !t.done && !t.blocked {
				enabled = append(enabled, t.id)
			}
		}
		if len(enabled) == 0 {
			alive := false
			for _, t := range r.threads {
				if !t.done {
					alive = true
				}
			}
			if alive {
				r.exec.Deadlock = true
				// abort the blocked threads
				r.aborted = true
				for _, t := range r.threads {
					if !t.done {
						r.running = t.id
						t.resume <- struct{}{}
						<-r.events
					}
				}
			}
			break
		}
		pick := enabled[0]
		if len(enabled) > 1 {
			runningEnabled := last >= 0 && enabled[0] == last
			ch := r.nextChoice("thread", len(enabled), last, runningEnabled, false)
			pick = enabled[ch]
		}
		r.running = pick
		r.exec.Steps++
		r.threads[pick].resume <- struct{}{}
		ev := <-r.events
		r.running = -1
		switch ev.kind {
		case evYield, evBlock:
			last = ev.tid
		case evDone:
			last = -1
		}
		if r.maxSteps > 0 && r.exec.Steps > r.maxSteps*4 {
			r.exec.Horizon = true
			r.aborted = true
			for _, t := range r.threads {
				if !t.done {
					r.running = t.id
					t.resume <- struct{}{}
					<-r.events
				}
			}
			break
		}
	}
	for i, t := range r.threads {
		r.exec.Panics[i] = t.panicMsg
		r.exec.ThreadEnd[i] = t.done
	}
	return r.exec
}

// Explorer is the deviation-bounded DFS of the guidance idiom.
type Explorer struct {
	Bound      int // maximum deviation cost; <0 = unbounded
	MaxSteps   int
	MaxExec    int // safety cap on executions (0 = none); hitting it clears Exhaustive
	Executions int
	Exhaustive bool
	MaxPoints  int
	// Shard: only explore level-1 subtrees i with i % NShards == Shard (the
	// default execution belongs to shard 0).
	Shard, NShards int
	Offset         int // rotates the assignment of level-1 subtrees to shards
	subtree        int
}

// Explore runs mk() to obtain fresh thread bodies for every execution, executes
// them for every choice sequence within the bound and calls check on each.
// check returns false to stop the whole exploration.
func (e *Explorer) Explore(mk func() []func(), check func(x *Execution) bool) {
	e.Exhaustive = true
	if e.NShards <= 0 {
		e.NShards = 1
	}
	e.subtree = 0
	e.explore(nil, mk, check, true)
}

// explore: free == true while the prefix consists of zero-cost choices only.
// Such nodes are executed by every shard (there are only a handful of them)
// and checked by shard 0; every subtree that starts with the first costly
// deviation is owned by exactly one shard. This splits the work evenly even
// though the zero-cost alternatives (initial thread choice, switches forced by
// a thread ending) head subtrees as large as the whole tree.
func (e *Explorer) explore(prefix []int, mk func() []func(), check func(x *Execution) bool, free bool) bool {
	if e.MaxExec > 0 && e.Executions >= e.MaxExec {
		e.Exhaustive = false
		return false
	}
	x := Execute(prefix, e.MaxSteps, mk())
	if !free || e.Shard == 0 {
		e.Executions++
		if len(x.Points) > e.MaxPoints {
			e.MaxPoints = len(x.Points)
		}
		if !check(x) {
			return false
		}
	}
	if x.Diverged != "" {
		return true
	}
	for i := len(prefix); i < len(x.Points); i++ {
		p := &x.Points[i]
		ac := p.altCost()
		cost := x.Cost(i) + ac
		if e.Bound >= 0 && cost > e.Bound {
			continue
		}
		for alt := 1; alt < p.N; alt++ {
			childFree := free && ac == 0
			if free && !childFree {
				e.subtree++
				if (e.subtree+e.Offset)%e.NShards != e.Shard {
					continue
				}
			}
			np := append(append(make([]int, 0, i+1), x.Choices()[:i]...), alt)
			if !e.explore(np, mk, check, childFree) {
				return false
			}
		}
	}
	return true
}
