#!/bin/bash
# runs every registered check in the given tier and prints one line each
T=${1:-quick}
cd /verif
for c in $(python3 -c "import json;print(' '.join(c['property_id'] for c in json.load(open('MANIFEST.json'))['checks']))"); do
  out=$(./bin/verif check $c --tier $T 2>&1); rc=$?
  echo "$(echo "$out" | tail -1 | cut -c1-170) rc=$rc"
  [ $rc -ne 0 ] && echo "$out" | grep -m3 -A2 "VIOLATION\|INFRA" | cut -c1-400
done
